#!/usr/bin/env python3
"""Generates /verif/MANIFEST.json from the table below (kept next to ./check's CHECKS table)."""
import json
import subprocess

HOOK_COMMITS = subprocess.run(
    ["git", "-C", "/repo", "log", "--format=%h %s", "--grep=^verif hook"],
    stdout=subprocess.PIPE, text=True).stdout.strip().splitlines()

ALL = [f"C{n:02d}" for n in range(1, 19)]

TL_NOTE = "Transactions are constructed against the block's base state (as ProcessProposal/FinalizeBlock do); single-block histories from two start states (fresh chain with bridges; chain with locked funds and a used withdrawal event); amounts and signers outside the alphabets are not covered."

CHECKS = {
    "C01": dict(
        category="model_checking",
        technique="explicit-state BFS over real App::execute_transaction / end_block on forked block state, reference value-movement and fee model",
        text=("T-level BFS inside a block: every sequence of <= 5 (thorough 7) transactions from the transfer/fee and bridge "
              "alphabets (+ end_block), each built from signed bytes by the real CheckedTransaction::new and executed by the real "
              "App::execute_transaction on a cnidarium fork of the real block state; after every transition the full state "
              "(verifiable, nonverifiable, ephemeral block fees and deposits) is dumped and compared with an independent "
              "reference: every (account, asset) / escrow / block-fee delta must equal the action's transfers plus fees computed "
              "as base + multiplier x size from the stored schedule in wide arithmetic; per-asset conservation; end_block credits "
              "exactly the accumulated block fees to the sudo address."),
        note=TL_NOTE,
        design_ref="2 C01",
    ),
    "C02": dict(
        category="model_checking",
        technique="explicit-state BFS over real transaction execution with an observational authority oracle on full state diffs",
        text=("Same T-level search over the authority and bridge alphabets (signers include unauthorised accounts, bridge accounts "
              "signing for themselves, privilege changes followed by use by the old and new holder). Oracle on the full pre/post "
              "state diff of every executed transaction: a balance may fall only for the signer or for a bridge account whose "
              "pre-state withdrawer is the signer; every changed privileged key class (sudo, fees, allowed fee assets, validators, "
              "IBC sudo/relayers, per-bridge sudo/withdrawer/disabled/creation, withdrawal events) requires the signer to be the "
              "authority recorded in the pre-state."),
        note=TL_NOTE + " ibc/sudo is administered by the chain sudo address by design.",
        design_ref="2 C02",
    ),
    "C03": dict(
        category="model_checking",
        technique="explicit-state BFS with byte-exact pre/post state comparison on failures and replay events",
        text=("T-level search (depth 4, thorough 6) with bundles failing at later action indices, stale and gapped nonces and "
              "replays of the exact bytes of the last two successful transactions. Oracle: a failed transaction leaves the complete "
              "dump (state, block fees, cached deposits) byte-identical; success raises exactly the signer's nonce by one; a "
              "non-current nonce or a replay never takes effect."),
        note=TL_NOTE,
        design_ref="2 C03",
    ),
    "C04": dict(
        category="model_checking",
        technique="explicit-state BFS over bridge transactions with deposit/withdrawal-event oracles",
        text=("T-level search over the bridge alphabet from a state with locked funds and a used event id (depth 5, thorough 8): "
              "the deposits a transaction publishes must be exactly its executed locks / bridge transfers in bridge, amount, destination, the bridge's rollup id and asset, transaction id and action index (whose credit to the "
              "bridge account is checked by the C01 movement reference), a withdrawal event id already recorded for the bridge is "
              "never honoured again by unlock or bridge transfer, and every honoured id is recorded."),
        note=TL_NOTE + " Stage ibc adds bridge Ics20Withdrawal / unlock event-id reuse on a chain with an open IBC channel.",
        design_ref="2 C04",
    ),
    "C10": dict(
        category="model_checking",
        technique="explicit-state BFS over soft/firm delivery interleavings, each history replayed on the real conductor executor against a logging fake rollup (loopback gRPC)",
        text=("BFS over every interleaving of <= 11 (thorough 16) events from {soft reader delivers block k, firm reader delivers block k "
              "(window of 4 heights; any delivery that is not the stream's next block - duplicate, stale, skip-ahead - is a deviation, at most "
              "2 (thorough 3) per history), soft reader syncs to the executor's height (drop_obsolete), executor takes next soft block (only "
              "while the real is_spread_too_large() is false), executor takes next firm block} for commit levels SoftAndFirm / SoftOnly / "
              "FirmOnly, look-ahead 1, 2 (thorough 16), several session start offsets, and sessions that start (conductor restart) with the soft commitment 2 (thorough 1..3) blocks ahead of the firm one. Each state is the history replayed on a fresh real "
              "executor::Initialized (two real BlockCaches, execute_soft / execute_firm, real gRPC Client). Oracle on the fake rollup's RPC "
              "log: exactly one ExecuteBlock per sequencer height, strictly in order, each on the block of the previous height; commitments "
              "monotone, firm <= soft, each naming the block executed at that number; in-order streams never stop the executor."),
        note="Reader select loops are mirrored by the harness (insert into the real BlockCache, forward sequential blocks); channel capacities, stop heights / session restarts and rollup errors are not in the alphabet.",
        design_ref="2 C10",
    ),
    "C11": dict(
        category="model_checking",
        technique="deviation-bounded exhaustive enumeration of environment answers and crash points on the real relayer (Relayer::run, BlobSubmitter, CelestiaClient over in-memory gRPC, paused clock); strace-recorded file-system history of the real state-file writes with every crash point and torn write replayed through the real reader",
        text=("Stage crash: every history of <= 9 (thorough 12) environment answers with <= 2 (thorough 3) deviations from the default, for "
              "sequencer backlogs 1, 3 (thorough also 6): decision points are the account query of try_prepare {ok, crash}, BroadcastTx "
              "{accept, reject, timeout with the tx lost / kept, crash with the tx lost / kept} and GetTx of a mempool tx {included, "
              "pending, evicted, crash with the tx pending / included / evicted}; a crash drops the whole runtime of the relayer, leaves a "
              "torn temp file and restarts the real Relayer::run from the state file. The fake Celestia enforces account sequences and "
              "decodes each BlobTx to the sequencer heights it carries. Oracle after every history: confirmed heights have no gap from the "
              "first relayed height, submissions carry consecutive heights, the relayer can start from the state file, and "
              "last_submission names only heights (and the Celestia height) that were confirmed. Stage statefile: the real transitions "
              "(new_from_path, into_prepared, into_started, revert, ...) run in a child under strace; for every crash point of the recorded "
              "open/truncate, write, rename, kernel-copy history (before each call and after every byte of each write) the directory is "
              "materialised and the real new_from_path must return the state before or after the interrupted transition."),
        note=("Crash = process stop at an RPC boundary (every distinct combination of state-file content and Celestia-side fate of the "
              "in-flight BlobTx arises at one); power loss reordering rename and data is outside the model. Fetching a sequencer block takes "
              "50 virtual ms in the fake so that batching does not depend on real file-system latency. The CometBFT HTTP client is replaced "
              "through the verif hook (chain-id check skipped, heights from a channel)."),
        design_ref="2 C11",
    ),
    "C12": dict(
        category="model_checking",
        technique="explicit-state BFS over the real NextSubmission / BlobSubmitter pending-block logic with conductor-style decoding of every submission",
        text=("BFS over every sequence of <= 4 (thorough 7) events from {deliver(next height, one of 5-6 size classes of incompressible "
              "payload around the 1 MB compressed limit, 0..2 rollups), take} for rollup filters {all, only the first rollup, only the second rollup, only an "
              "absent rollup}, each state replayed on a fresh real BlobSubmitter (real add_sequencer_block_to_next_submission / "
              "has_capacity / NextSubmission::try_add / take). Every taken submission is decoded as the conductor does (brotli, "
              "protobuf lists, checked types) and must contain exactly the batched blocks' metadata in height order and exactly the "
              "non-filtered rollup data (byte-identical to split_for_celestia incl. proofs), compressed size <= 1000000 and equal to "
              "the blob bytes; every delivered height is accounted for once, in order."),
        note="The select loop of BlobSubmitter::run is mirrored by the harness (deliver only while has_capacity; re-add the pushed-back block after a take); payload sizes outside the alphabet are not covered.",
        design_ref="2 C12",
    ),
    "C13": dict(
        category="model_checking",
        technique="explicit-state BFS over the real Mempool (history replay under a paused clock) with structural and API-level oracles",
        text=("BFS over every sequence of <= 4 (thorough 5) events from inserts of 10 real signed transactions (2 accounts, nonces "
              "0..2, cheap / expensive / sudo-group; each with the current chain view and with the view of before the last chain change), remove_tx_invalid, chain nonce "
              "advances with inclusion results, balance changes, fee recost, run_maintenance and TTL expiry, for parked limits "
              "1, 2, 100; each state is replayed on a fresh real Mempool under a paused tokio clock. Oracle on the inner containers "
              "and public API: every tracked transaction in exactly one queue, every accepted transaction has a status (never "
              "silently lost), pending nonces consecutive, builder queue nonce-ordered per group, parked limit, and after "
              "maintenance no used nonce, pending starts at the chain nonce and is affordable."),
        note=("Inserts are guarded like service::mempool::check_tx (only transactions the mempool does not know). First-seen instants "
              "are 1 ms apart so queue order never depends on HashMap order. Per-account parked limit (15) not exercised. One known "
              "finding listed in known_findings.txt."),
        design_ref="2 C13",
    ),
    "C14": dict(
        category="model_checking",
        technique="explicit-state BFS over validator-update transactions, folding returned updates over the block-start set",
        text=("T-level search over validator add/update/remove transactions (several per block, repeated keys, unauthorised "
              "signers, sudo hand-over) followed by the real end_block; the returned update batch is folded over the validator set "
              "at block start with CometBFT's rules (a removal must name a member, the set must stay non-empty) and must equal the "
              "stored validator set and count."),
        note=TL_NOTE + " Two universes: post-Blackburn chain and a chain that has not reached Aspen (legacy validator-set storage); a history crossing the upgrade height is not explored. One known finding (pre-Aspen) listed in known_findings.txt.",
        design_ref="2 C14",
    ),
    "C05": dict(
        category="exploration",
        technique="exhaustive enumeration of ABCI call-path schedules before a decided block, differential oracle on the real App",
        text=("For each of 6 decided blocks built by a real proposer (CheckTx + PrepareProposal, vote extensions signed by the "
              "genesis validators, incl. a currency-pair removal priced by the block's own extended commit): every sequence of "
              "<= 2 (thorough 3) pre-calls from {ProcessProposal(decided), PrepareProposal(decided), ProcessProposal(other), "
              "PrepareProposal(other), ProcessProposal(undecodable), ProcessProposal(rejected after partial execution), restart} followed by FinalizeBlock(decided)+Commit, each on an "
              "identically built chain with real storage; compared with the sync path on app hash, per-tx (code, data, gas), "
              "validator/consensus-param updates, the full committed state dump, and success/failure; a follow-up block for the next height (proposed once) is then finalized on every node and its app hash and result codes compared."),
        note="Single decided block after a fixed prefix; hash-map iteration order inside the app is sampled (one App per path), not enumerated. One known finding listed in known_findings.txt.",
        design_ref="2 C05",
    ),
    "C06": dict(
        category="exploration",
        technique="bounded-exhaustive enumeration of mempool contents x size limits x proposal mutations through real Prepare/ProcessProposal",
        text=("Every subset of <= 3 (thorough 4) of 12 transactions (dependent nonces, 100/150 kB rollup data straddling the "
              "256000-byte limit, an execution-failing transaction, sudo/unbundleable groups) in every insertion order for <= 2 "
              "(3), with empty and with signed priced extended commits, x max_tx_bytes = S_k-1, S_k, S_k+1 for every prefix k "
              "of the honest proposal: real CheckTx + PrepareProposal on node A, real ProcessProposal on node B; oracle: "
              "prepare succeeds, byte and sequenced-data limits, group order, B accepts. Every applicable mutation of the "
              "honest proposal from a by-construction-invalid menu (11 kinds, every position) must be rejected by B."),
        note="CometBFT's own size check and proposal signature are outside the harness; proposals at one height after a fixed prefix.",
        design_ref="2 C06",
    ),
    "C07": dict(
        category="exploration",
        technique="bounded-exhaustive enumeration of block shapes through the real block pipeline and gRPC server, reference comparison and single-element tampering",
        text=("Every block shape over 3 rollups (payload list from {none, [0x00], [a], [a,a], [a,b]} per rollup x deposits {none, 1, "
              "2 to two bridges, 2 to one bridge} x {one bundle, one transaction per item}; quick: every third of the grid, thorough: "
              "all 1000) is produced by the real CheckTx/PrepareProposal/FinalizeBlock/Commit and read back through the real "
              "SequencerServer for the full block and every ordered selection of the 4 rollup ids (65 request orders plus 40 with a repeated id), decoded with the client-side checked types "
              "and split for Celestia; oracle: data == payloads in block order then deposits (reference from the included "
              "transactions), ids sorted = rollups with data, header root == independently recomputed root, proofs verify; every "
              "single-element tampering of the full, filtered and Celestia forms must fail verification. The conductor side of the "
              "hand-off (decode + audit + reconstruct) is exercised under C09."),
        note="astria-merkle (C08) is used for recomputation; the relayer's blob packing is covered under C12 when built.",
        design_ref="2 C07",
    ),
    "C08": dict(
        category="exploration",
        technique="bounded-exhaustive input enumeration on the real code against an independent RFC 6962 reference",
        text=("Every tree size 0..=70 (thorough 0..=130) x 6 leaf-content classes x every leaf index, plus every size "
              "2^k-1, 2^k, 2^k+1 up to 2^11 (thorough 2^16) with every leaf index, is built with the real Tree and "
              "compared with an independently written RFC 6962 MTH/PATH; every single-bit and single-segment mutation "
              "of leaf, path and root must fail verification; every (path length, leaf index, tree size) triple from "
              "boundary alphabets (0, n-1, n, n+1, 2^62, 2^63-1, 2^63, usize::MAX ...) is decoded and verified under "
              "catch_unwind. Exhaustive within these bounds, no sampling."),
        note="SHA-256 (sha2 crate) is shared by implementation and reference; sizes beyond the bounds are not covered.",
        design_ref="2 C08",
    ),
    "C09": dict(
        category="exploration",
        technique="bounded-exhaustive enumeration of validator sets x commit-slot assignments and of blob combinations through the real verification pipeline",
        text=("Stage quorum: every validator set of 1..4 validators with powers from {1,2,3} (thorough {1,2,3,5}) plus "
              "large-power boundary sets x every per-validator slot kind (valid, absent, nil, duplicate of another "
              "validator, signature by another key / over another block, chain id, height, empty, outsider) through the "
              "real ensure_commit_has_quorum; oracle accepted => 3 x distinct valid power > 2 x total. Stage blobs: every "
              "combination of an honest part with <= 2 (thorough 3) adversarial metadata kinds and <= 2 (3) adversarial "
              "rollup-data kinds, two orders, two packagings, through the real decode_raw_blobs -> verify_metadata (fake "
              "sequencer RPC over loopback HTTP) -> reconstruct_blocks_from_verified_blobs; oracle: every reconstructed "
              "block is the committed block of its height with exactly its data for the rollup, honest blocks are not "
              "starved, nothing panics."),
        note="Sequencer RPC is an in-process wiremock fake; ed25519 verification trusted; HashMap iteration order inside the pipeline is sampled per run, results compared as sets.",
        design_ref="2 C09",
    ),
    "C15": dict(
        category="exploration",
        technique="bounded-exhaustive enumeration of power vectors x vote kinds x last-commit relations through the real validate_proposal; price vectors through the real median",
        text=("Stage validate: every validator set of 1..4 validators with listed powers from {1,2,3} (thorough {1,2,3,5}) x "
              "every per-vote kind (valid, absent, nil, forged extension, signed by another validator, duplicate of another "
              "validator, missing signature, (thorough: other height, nil with extension, unknown validator, too many pairs)) x "
              "last-commit relation, through the real ProposalHandler::validate_proposal and, when accepted, the real "
              "apply_prices_from_vote_extensions; oracle: accepted => matches last commit, every commit-flag extension validly "
              "signed by its attributed stored validator, none twice, 3 x contributing > 2 x listed power; honest full and "
              "empty extended commits accepted; published price within the reported range. Stage median: every price vector "
              "of length 1..4 over {MIN, MIN+1, -3..3, MAX-1, MAX} through calculate_prices_from_vote_extensions."),
        note="ed25519 trusted; the link from a rejected proposal to 'no price update' is through ProcessProposal (C05/C06 drive it with valid extended commits only).",
        design_ref="2 C15",
    ),
    "C16": dict(
        category="model_checking",
        technique="explicit-state BFS over the real BundleFactory with a list reference model",
        text=("Breadth-first search over every operation sequence (push of 6-7 size classes around the limit, pop_now, "
              "next_finished().pop()) up to depth 8 (thorough 11) for 2 maxima x 4 queue capacities, executing the real "
              "BundleFactory on every transition; each state is checked against a list reference model (exactly once, in "
              "order), recomputed encoded sizes, and the refusal rule."),
        note="State key is the size structure of held bundles (payload ids are a relabelling); sizes outside the alphabet are not covered.",
        design_ref="2 C16",
    ),
    "C17": dict(
        category="exploration",
        technique="bounded-exhaustive structure-aware enumeration: every truncation and every single-node mutation of the protobuf wire tree of valid encodings (pairs for small encodings in thorough), fed to the public decode entry points under catch_unwind with independent re-verification of accepted values",
        text=("For each valid encoding (signed transaction with 1 and 2 actions; sequencer block with 2 rollups and a deposit, with and "
              "without extended commit info; filtered block; Celestia metadata; Celestia rollup item; sequenced-data and deposit entries; the "
              "conductor's header / rollup blob lists and the compressed blob bytes): every truncation of the encoding and every single-node "
              "mutation of its wire tree from the menu {delete, duplicate, swap with next sibling, renumber field, integer := 0, 1, +-1, "
              "i32/u32/u64 max, 2^32, 2^63; bytes := empty, minus first / last byte, plus a byte, bit flips, zeros; declared length +-1 and "
              "2^31; sub-message := empty / cut}; compressed blob: every single-byte flip and truncation; thorough: every pair of mutations for "
              "the small encodings. Entry points: Transaction / SequencerBlock / FilteredSequencerBlock / SubmittedMetadata / "
              "SubmittedRollupData / RollupData ::try_from_raw after prost decoding, and the conductor's decode_raw_blobs. Oracle: no panic; "
              "an accepted value re-encodes to a fixed point, its signature and Merkle proofs verify when recomputed independently from the "
              "accepted fields, and the checked forms derived from it (filtered block, Celestia metadata and items) validate. Stage checktx: every "
              "truncation and single-node mutation of 4 valid signed transactions (thorough: pairs for the transfer) through the sequencer's real "
              "service::mempool::check_tx against a committed chain state and a fresh real mempool; no panic, and accepted bytes are a validly "
              "signed transaction stored under the hash of the bytes."),
        note="Mutations outside the menu (two independent edits in the large encodings, forgeries needing a fresh signature) are not covered.",
        design_ref="2 C17",
    ),
    "C18": dict(
        category="model_checking",
        technique="explicit-state BFS over real Ics20Withdrawal transactions and the real Ics20Transfer packet handlers with a reference escrow ledger",
        text=("BFS over every sequence of <= 3 (thorough 5) events from 21 (thorough 28) outgoing / incoming ICS-20 events on forks of "
              "a real block state with open channels, connection and client: withdrawals (native asset in trace and ibc/ form, two "
              "channels, from a bridge with an event id, foreign asset) through the real transaction path; incoming packets (returning "
              "and foreign assets, plain and bridge recipients, good/bad memos, amounts above the escrow), error acks and timeouts of "
              "the path's own packets and of an invented one through the real Ics20Transfer check+execute handlers inside a state "
              "transaction. Oracle: reference escrow ledger (sent - returned - refunded, never negative), ICS-20 source-zone rule on "
              "the full denomination trace, every incoming packet / refund has either its full effect (balances, escrow, deposit and "
              "deposit event) or none."),
        note="Enters below penumbra's relay-layer proof verification; one universe (BR1 funded, two channels).",
        design_ref="2 C18",
    ),
}

NOT_YET = "check not built yet in this revision (work in progress; see DESIGN.md section 5)"


def main():
    checks = []
    for pid in ALL:
        if pid not in CHECKS:
            continue
        c = CHECKS[pid]
        checks.append({
            "property_id": pid,
            "quick_cmd": f"./check {pid} --tier quick",
            "thorough_cmd": f"./check {pid} --tier thorough",
            "evidence_file": f"/verif/evidence/{pid}.json",
            "replay_cmd_template": f"./check {pid} --replay {{path}}",
            "engine": "verif-engine",
            "level_claimed": {"category": c["category"], "text": c["text"], "design_ref": c["design_ref"]},
            "level_note": c["note"],
            "technique": c["technique"],
        })
    manifest = {
        "version": 1,
        "setup_cmd": "./check --setup",
        "hooks": {
            "guard": "verif",
            "enable": ("cargo feature `verif` on each harnessed crate: cargo --config /verif/cargo-verif.toml test --lib "
                       "-p astria-sequencer -p astria-merkle -p astria-core -p astria-conductor -p astria-sequencer-relayer "
                       "-p astria-composer --features <crate>/verif,... with CARGO_TARGET_DIR=/verif/target; the feature adds "
                       "`#[cfg(all(test, feature = \"verif\"))] #[path = \"/verif/harness/...\"] mod ...;` lines and, in "
                       "astria-sequencer-relayer, two seams: CelestiaClientBuilder::new_with_channel (gRPC channel supplied by the "
                       "harness) and a thread-local slot from which Relayer::run takes its stream of latest sequencer heights "
                       "(the original statements are kept under cfg(not(feature = \"verif\")))"),
            "baseline_off_cmd": "/verif/baseline_off.sh",
            "source_commits": [c.split()[0] for c in HOOK_COMMITS],
            "add_only": True,
        },
        "engines": [{
            "name": "verif-engine",
            "path": "/verif/engine",
            "serves_properties": sorted(CHECKS),
            "kind_free_text": ("std-only Rust explorer (#[path]-included into in-crate test modules): explicit-state BFS over "
                               "real transition functions with canonical-state dedup, deviation-bounded schedule/fault "
                               "enumeration, bounded-exhaustive input enumeration; /verif/check (python) builds, runs stages, "
                               "merges evidence and matches known findings"),
        }],
        "checks": checks,
        "not_applicable": [{"property_id": p, "reason": NOT_YET} for p in ALL if p not in CHECKS],
        "notes": ("Exit 2 from ./check is a machinery failure, never a verdict. known_findings.txt lists known/fixed "
                  "defects; see DESIGN.md."),
    }
    with open("/verif/MANIFEST.json", "w") as f:
        json.dump(manifest, f, indent=1)
    print(f"MANIFEST.json: {len(checks)} checks, {len(manifest['not_applicable'])} not claimed")


if __name__ == "__main__":
    main()
