#!/usr/bin/env python3
"""Generates /verif/MANIFEST.json from the table below (kept next to ./check's CHECKS table)."""
import json
import subprocess

HOOK_COMMITS = subprocess.run(
    ["git", "-C", "/repo", "log", "--format=%h %s", "--grep=^verif hooks"],
    stdout=subprocess.PIPE, text=True).stdout.strip().splitlines()

ALL = [f"C{n:02d}" for n in range(1, 19)]

CHECKS = {
    "C08": dict(
        category="exploration",
        technique="bounded-exhaustive input enumeration on the real code against an independent RFC 6962 reference",
        text=("Every tree size 0..=70 (thorough 0..=130) x 6 leaf-content classes x every leaf index, plus every size "
              "2^k-1, 2^k, 2^k+1 up to 2^11 (thorough 2^16) with every leaf index, is built with the real Tree and "
              "compared with an independently written RFC 6962 MTH/PATH; every single-bit and single-segment mutation "
              "of leaf, path and root must fail verification; every (path length, leaf index, tree size) triple from "
              "boundary alphabets (0, n-1, n, n+1, 2^62, 2^63-1, 2^63, usize::MAX ...) is decoded and verified under "
              "catch_unwind. Exhaustive within these bounds, no sampling."),
        note="SHA-256 (sha2 crate) is shared by implementation and reference; sizes beyond the bounds are not covered.",
        design_ref="2 C08",
    ),
    "C09": dict(
        category="exploration",
        technique="bounded-exhaustive enumeration of validator sets x commit-slot assignments and of blob combinations through the real verification pipeline",
        text=("Stage quorum: every validator set of 1..4 validators with powers from {1,2,3} (thorough {1,2,3,5}) plus "
              "large-power boundary sets x every per-validator slot kind (valid, absent, nil, duplicate of another "
              "validator, signature by another key / over another block, chain id, height, empty, outsider) through the "
              "real ensure_commit_has_quorum; oracle accepted => 3 x distinct valid power > 2 x total. Stage blobs: every "
              "combination of an honest part with <= 2 (thorough 3) adversarial metadata kinds and <= 2 (3) adversarial "
              "rollup-data kinds, two orders, two packagings, through the real decode_raw_blobs -> verify_metadata (fake "
              "sequencer RPC over loopback HTTP) -> reconstruct_blocks_from_verified_blobs; oracle: every reconstructed "
              "block is the committed block of its height with exactly its data for the rollup, honest blocks are not "
              "starved, nothing panics."),
        note="Sequencer RPC is an in-process wiremock fake; ed25519 verification trusted; HashMap iteration order inside the pipeline is sampled per run, results compared as sets.",
        design_ref="2 C09",
    ),
    "C16": dict(
        category="model_checking",
        technique="explicit-state BFS over the real BundleFactory with a list reference model",
        text=("Breadth-first search over every operation sequence (push of 6-7 size classes around the limit, pop_now, "
              "next_finished().pop()) up to depth 8 (thorough 11) for 2 maxima x 4 queue capacities, executing the real "
              "BundleFactory on every transition; each state is checked against a list reference model (exactly once, in "
              "order), recomputed encoded sizes, and the refusal rule."),
        note="State key is the size structure of held bundles (payload ids are a relabelling); sizes outside the alphabet are not covered.",
        design_ref="2 C16",
    ),
}

NOT_YET = "check not built yet in this revision (work in progress; see DESIGN.md section 5)"


def main():
    checks = []
    for pid in ALL:
        if pid not in CHECKS:
            continue
        c = CHECKS[pid]
        checks.append({
            "property_id": pid,
            "quick_cmd": f"./check {pid} --tier quick",
            "thorough_cmd": f"./check {pid} --tier thorough",
            "evidence_file": f"/verif/evidence/{pid}.json",
            "replay_cmd_template": f"./check {pid} --replay {{path}}",
            "engine": "verif-engine",
            "level_claimed": {"category": c["category"], "text": c["text"], "design_ref": c["design_ref"]},
            "level_note": c["note"],
            "technique": c["technique"],
        })
    manifest = {
        "version": 1,
        "setup_cmd": "./check --setup",
        "hooks": {
            "guard": "verif",
            "enable": ("cargo feature `verif` on each harnessed crate: cargo --config /verif/cargo-verif.toml test --lib "
                       "-p astria-sequencer -p astria-merkle -p astria-core -p astria-conductor -p astria-sequencer-relayer "
                       "-p astria-composer --features <crate>/verif,... with CARGO_TARGET_DIR=/verif/target; the feature only "
                       "adds `#[cfg(all(test, feature = \"verif\"))] #[path = \"/verif/harness/...\"] mod ...;` lines"),
            "baseline_off_cmd": "cd /repo && cargo test --workspace --no-fail-fast --offline",
            "source_commits": [c.split()[0] for c in HOOK_COMMITS],
            "add_only": True,
        },
        "engines": [{
            "name": "verif-engine",
            "path": "/verif/engine",
            "serves_properties": sorted(CHECKS),
            "kind_free_text": ("std-only Rust explorer (#[path]-included into in-crate test modules): explicit-state BFS over "
                               "real transition functions with canonical-state dedup, deviation-bounded schedule/fault "
                               "enumeration, bounded-exhaustive input enumeration; /verif/check (python) builds, runs stages, "
                               "merges evidence and matches known findings"),
        }],
        "checks": checks,
        "not_applicable": [{"property_id": p, "reason": NOT_YET} for p in ALL if p not in CHECKS],
        "notes": ("Exit 2 from ./check is a machinery failure, never a verdict. known_findings.txt lists known/fixed "
                  "defects; see DESIGN.md."),
    }
    with open("/verif/MANIFEST.json", "w") as f:
        json.dump(manifest, f, indent=1)
    print(f"MANIFEST.json: {len(checks)} checks, {len(manifest['not_applicable'])} not claimed")


if __name__ == "__main__":
    main()
