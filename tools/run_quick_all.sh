#!/bin/bash
# Runs the quick tier of every check once; one summary line per check.
cd /verif
rm -f /verif/work/quick-summary.txt
for id in C08 C16 C17 C09 C10 C11 C12 C13 C14 C15 C18 C02 C03 C04 C01 C06 C07 C05; do
  start=$(date +%s)
  ./check "$id" > "/verif/work/quick-$id.log" 2>&1
  rc=$?
  echo "$id exit=$rc secs=$(( $(date +%s) - start )) $(tail -1 /verif/work/quick-$id.log | cut -c1-160)" >> /verif/work/quick-summary.txt
done
echo ALL-DONE >> /verif/work/quick-summary.txt
