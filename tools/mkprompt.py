#!/usr/bin/env python3
"""Writes /tmp/prompt-<ID>[-<round>].txt for a seed sub-agent from the property text (nothing from /verif is quoted)."""
import json, sys
SPEC = {
 "C10": dict(pkg="astria-conductor", n="about 60", about="`crates/astria-conductor/src/executor/mod.rs`, `executor/state.rs` / `src/state.rs`, `src/block_cache.rs`, and the reader loops in `src/sequencer/mod.rs` and `src/celestia/mod.rs`",
   specific="a particular interleaving of soft and firm block arrival (firm arriving first, soft far ahead, a stale or duplicate block after the other stream advanced), a particular commit-level mode, or an execution-session start offset",
   drive="The executor's unit tests (`src/executor/tests.rs`), `src/block_cache.rs` tests and `src/test_utils.rs` show how to build blocks and state; `State::try_from_execution_session`, `BlockCache`, `should_execute_firm_block`, `does_block_response_fulfill_contract` can be driven directly."),
 "C11": dict(pkg="astria-sequencer-relayer", n="about 52", about="`crates/astria-sequencer-relayer/src/relayer/submission.rs` (the submission-state file), `relayer/write/mod.rs` (try_submit, try_confirm_submission_from_last_session, the BlobSubmitter run loop), `relayer/mod.rs` (Relayer::run: startup from the state file, block stream start height) and `relayer/read.rs`",
   specific="a crash/restart at a particular point (state file says `prepared` while the BlobTx is lost / pending / confirmed), a broadcast timeout followed by a retry, a particular batching of blocks before the restart, a torn or leftover temp file",
   drive="The tests at the bottom of `submission.rs` show how to drive the state transitions on a temp dir; `tests/blackbox/` shows the mock Celestia app and mock sequencer (those black-box tests are slow and flaky on a loaded machine; run them with `--test blackbox -- --test-threads=1` only as an extra). A demonstration may drive `SubmissionStateAtStartup`, `StartedSubmission`, `PreparedSubmission`, `read::BlockStream` builder and the skip logic directly, or use the black-box helpers."),
 "C12": dict(pkg="astria-sequencer-relayer", n="about 52", about="`crates/astria-sequencer-relayer/src/relayer/write/conversion.rs` and `write/mod.rs`",
   specific="block sizes close to the compressed payload limit, a block pushed back as pending, a particular rollup filter, blocks with zero or many rollups",
   drive="The tests at the bottom of `write/conversion.rs` show how to build blocks (`ConfigureSequencerBlock` from astria_core::protocol::test_utils) and drive `NextSubmission::try_add` / `take`."),
 "C14": dict(pkg="astria-sequencer", n="roughly 518", about="`crates/astria-sequencer/src/checked_actions/validator_update.rs`, `src/authority/component.rs`, `src/authority/state_ext.rs`, and end_block handling in `src/app/mod.rs`",
   specific="several validator updates in one block, a repeated key, remove-then-add or add-then-remove in one block, an update that removes the last-but-one validator, a particular ordering of updates",
   drive="The crate's `crate::test_utils` module (`Fixture`, `ChainInitializer`, keys ALICE/BOB/CAROL/SUDO) and the tests in `src/authority/` and `src/app/tests_app/` show how to drive it."),
 "C15": dict(pkg="astria-sequencer", n="roughly 518", about="`crates/astria-sequencer/src/app/vote_extension.rs` (validation of extended commit info, voting-power threshold, price aggregation) and `crates/astria-core/src/oracles/price_feed/utils.rs`",
   specific="a particular voting-power distribution (exactly two thirds, one dominant validator), a particular subset of signers, absent/nil votes, duplicated validators, negative or extreme prices, an even number of reporters",
   drive="The tests at the bottom of `src/app/vote_extension.rs` show how to build signed vote extensions and extended commit infos."),
 "C17": dict(pkg="astria-core", n="about 84 lib tests (use `cargo test -p astria-core --lib --offline --features test-utils` if a plain run complains about missing features)", about="the checked constructors in `crates/astria-core/src/sequencerblock/v1/block/mod.rs` (`SequencerBlock`, `FilteredSequencerBlock`, `RollupTransactions`, `ExtendedCommitInfoWithProof`, `RollupData`, `Deposit`), `crates/astria-core/src/sequencerblock/v1/celestia.rs` (`SubmittedMetadata`, `SubmittedRollupData`), `crates/astria-core/src/sequencerblock/v1/mod.rs` (the proof helpers) and `crates/astria-core/src/protocol/transaction/v1/mod.rs` (`Transaction::try_from_raw`)",
   specific="a particular malformed-but-decodable message: one field missing or of the wrong length, a proof that belongs to another leaf or tree, a duplicated or reordered repeated element, an inconsistent pair of fields (ids list vs data, header root vs data), an index / size at a boundary",
   drive="`astria_core::protocol::test_utils::ConfigureSequencerBlock` builds valid blocks; `into_raw()` / `try_from_raw()` convert to and from the protobuf types in `astria_core::generated`; the tests at the bottom of `block/mod.rs` and `celestia.rs` show usage. The demonstration should take a valid raw message, alter it, and show that `try_from_raw` now accepts something whose signature or Merkle proofs do not verify (or panics), while the original code rejects it."),
 "C18": dict(pkg="astria-sequencer", n="roughly 518", about="`crates/astria-sequencer/src/ibc/ics20_transfer.rs`, `src/ibc/state_ext.rs`, `src/checked_actions/ics20_withdrawal.rs`",
   specific="a particular denomination form (trace vs ibc/ hash, multi-hop prefixes), a second channel, a refund (error ack / timeout) after a particular outgoing transfer, an incoming packet to a bridge account with a particular memo or asset, amounts at the escrow boundary",
   drive="The tests at the bottom of `src/ibc/ics20_transfer.rs` show how to drive `receive_tokens`/`refund_tokens`/the `AppHandler` functions on a `StateDelta`; `crate::test_utils` has `Fixture`, keys and `nria()`."),
 "C16": dict(pkg="astria-composer", n="about 60 (two `geth_collector` tests fail without any change; ignore them)", about="`crates/astria-composer/src/executor/bundle_factory/mod.rs` and `crates/astria-composer/src/executor/mod.rs`",
   specific="a particular sequence of pushes of sizes around the bundle limit, a pop/next_finished at a particular moment, an oversized action, the bundle queue at capacity",
   drive="The tests in `src/executor/bundle_factory/tests.rs` show how to drive `BundleFactory`."),
 "C09": dict(pkg="astria-conductor", n="about 60", about="`crates/astria-conductor/src/celestia/verify.rs`, `celestia/reconstruct.rs`, `celestia/convert.rs`, `celestia/mod.rs`",
   specific="a particular validator power distribution or commit (nil/absent votes, duplicate signatures, exactly two thirds), blobs from several sequencer heights / rollups in one Celestia block, a forged or duplicated metadata blob",
   drive="The tests in `src/celestia/verify.rs` and `src/celestia/reconstruct.rs` show how to build commits, validator sets and blobs."),
 "C08": dict(pkg="astria-merkle", n="about 40", about="`crates/astria-merkle/src/lib.rs` and `src/audit.rs`",
   specific="a particular tree size (non power of two, one less / one more than a power of two), a particular leaf index (last leaf, a leaf on the right spine), a proof for a different tree size",
   drive="The tests in `src/tests.rs` and `src/audit.rs` show how to build trees and proofs."),
 "C02": dict(pkg="astria-sequencer", n="roughly 518", about="`crates/astria-sequencer/src/checked_actions/` (transfer.rs, bridge/*.rs, ics20_withdrawal.rs, bridge_sudo_change.rs, init_bridge_account.rs, sudo_address_change.rs, fee_change.rs, fee_asset_change.rs, validator_update.rs, ibc_relayer_change.rs, ibc_sudo_change.rs, currency_pairs_change.rs, markets_change.rs) and the signature check in `crates/astria-core/src/protocol/transaction/v1/mod.rs`",
   specific="a particular signer role (a former holder of a privilege, a bridge account signing for itself, the new holder in the same block), a privilege change earlier in the same block, a check present at construction but missing at execution (or vice versa) for one action type",
   drive="The crate's `crate::test_utils` module (`Fixture`, `ChainInitializer`, `BridgeInitializer`, `CheckedTxBuilder`, keys ALICE/BOB/CAROL/SUDO, `nria()`, ...) and the existing tests under `src/app/tests_app/`, `src/checked_actions/**` show how to drive the code."),
 "C03": dict(pkg="astria-sequencer", n="roughly 518", about="`crates/astria-sequencer/src/checked_transaction/mod.rs`, `src/checked_actions/*.rs`, `src/app/mod.rs` (transaction execution)",
   specific="a transaction whose k-th action (k>1) fails after earlier actions have changed state, a particular action type whose execute writes before a check that can still fail, a replay of the same bytes, a nonce gap",
   drive="`crate::test_utils` (`Fixture`, `CheckedTxBuilder`, keys) and the tests in `src/checked_transaction/` and `src/app/tests_app/` show how to drive it."),
 "C13": dict(pkg="astria-sequencer", n="roughly 518", about="`crates/astria-sequencer/src/mempool/mod.rs`, `mempool/transactions_container.rs`",
   specific="a particular order of inserts / removals / maintenance runs, a nonce gap being closed, a balance drop demoting a transaction, the parked queue at its limit",
   drive="The tests in `src/mempool/` (`MockTxBuilder`, `mock_balances`, `mock_tx_cost`) show how to drive the `Mempool`."),
 "C01": dict(pkg="astria-sequencer", n="roughly 518", about="`crates/astria-sequencer/src/checked_actions/` (transfer, bridge_lock, bridge_unlock, bridge_transfer), `src/fees/`, `src/accounts/state_ext.rs`",
   specific="aliasing (sender == receiver, fee asset == transferred asset, bridge == destination), a bundle of several actions, a particular fee asset, amounts near the balance",
   drive="`crate::test_utils` (`Fixture`, `CheckedTxBuilder`, keys) and the tests in `src/checked_actions/` show how to drive it."),
 "C04": dict(pkg="astria-sequencer", n="roughly 518", about="`crates/astria-sequencer/src/checked_actions/bridge_lock.rs`, `bridge_unlock.rs`, `bridge_transfer.rs`, `src/bridge/state_ext.rs`, `src/app/mod.rs` (deposit collection)",
   specific="several locks in one transaction or block, a failed transaction after a lock, a bridge transfer between two bridges, a withdrawal event id reused across action types",
   drive="`crate::test_utils` (`Fixture`, `BridgeInitializer`, `CheckedTxBuilder`) and the tests in `src/checked_actions/bridge_*.rs` show how to drive it."),
 "C05": dict(pkg="astria-sequencer", n="roughly 518", about="`crates/astria-sequencer/src/app/mod.rs` (prepare_proposal, process_proposal, finalize_block, commit, execution-state caching)",
   specific="a particular sequence of ABCI calls before FinalizeBlock (a rejected proposal in an earlier round, this node proposing a different block, a restart between calls)",
   drive="`crate::test_utils` (`Fixture`) and the tests in `src/app/tests_app/` and `src/app/tests_execute_transaction.rs` show how to drive the ABCI calls."),
 "C06": dict(pkg="astria-sequencer", n="roughly 518", about="`crates/astria-sequencer/src/app/mod.rs` (prepare_proposal / process_proposal), `src/proposal/`",
   specific="a particular mutation of an honest proposal (reordered, dropped, duplicated, oversized transactions; wrong commitments) or a particular mempool content at the size limits",
   drive="`crate::test_utils` (`Fixture`) and the tests in `src/app/tests_app/` show how to drive it."),
 "C07": dict(pkg="astria-sequencer", n="roughly 518", about="`crates/astria-sequencer/src/grpc/sequencer.rs`, `src/grpc/state_ext.rs`, `crates/astria-core/src/sequencerblock/v1/block/mod.rs`",
   specific="a particular block shape (several rollups, deposits plus data, duplicate payloads) or request (several rollup ids, an absent id)",
   drive="The tests in `src/grpc/sequencer.rs` and `src/grpc/state_ext.rs` show how to store and serve blocks."),
}
SEQ_NOTE = ("NOTE: the three tests `app::tests_app::app_finalize_block_failed_ibc_relay_included_in_block`, `app::tests_app::app_prepare_proposal_failed_ibc_relay_included_in_block` and `app::tests_app::app_process_proposal_failed_ibc_relay_included_in_block` can fail under plain `cargo test` even WITHOUT any change because of process-global test state - they pass when run alone with `-- --exact <name>`; ignore those three. ")
def main():
    pid = sys.argv[1]; tag = sys.argv[2] if len(sys.argv) > 2 else pid
    avoid = sys.argv[3] if len(sys.argv) > 3 else ""
    sp = SPEC[pid]
    prop = next(json.loads(l) for l in open('/verif/properties.jsonl') if json.loads(l)['id'] == pid)
    wt = f"/tmp/wt-{tag}"
    low = pid.lower()
    crate_dir = "crates/" + sp['pkg']
    seqnote = SEQ_NOTE if sp['pkg'] == 'astria-sequencer' else ""
    txt = f"""You are helping evaluate a verification effort by producing a realistic *property-breaking change* to a Rust codebase (the astriaorg/astria monorepo). Work ONLY inside the scratch git worktree at {wt} (a checkout of the repository). Do NOT read, list or use anything under /verif, and do not touch /repo. The machine is offline: always use `cargo ... --offline`; never try to fetch anything. Use `CARGO_TARGET_DIR={wt}/target` for every cargo command (the first build of the crate's tests can take 15-25 minutes on this shared machine; be patient, use long timeouts (e.g. 3600000 ms), and start that build early, e.g. in the background, while you read code).

The property (about {sp['about']}):

---
{pid} - {prop['title']}

{prop['statement']}

Quantifier: {prop['quantifier']['text']}
---

Your task: make ONE small source change (a plausible bug a developer could introduce: an off-by-one, a wrong branch condition, a swapped argument, a check dropped on one of several paths, state written before a check that can still fail, a cache not invalidated, two sites that each look fine alone) in NON-test source that BREAKS the property above, while:
1. the crate still compiles, and
2. ALL existing tests of the crate still pass: run `cargo test -p {sp['pkg']} --lib --offline` and report the pass count (expect {sp['n']} tests. {seqnote}Every other test must pass - if your change breaks an existing test, choose a different change), and
3. the breakage needs something SPECIFIC to manifest - {sp['specific']} - NOT something that ordinary use would expose at once. Prefer subtle over blatant; do not just delete a whole check if a narrower bug on one path is possible.{(' ' + avoid) if avoid else ''}

Then write a demonstration: a `#[cfg(test)]` test in a new file inside the crate (e.g. `{crate_dir}/src/demo_{low}.rs`, included with a one-line `#[cfg(test)] mod demo_{low};` from `lib.rs` or the relevant module) that FAILS with your change and PASSES on the original code. {sp['drive']} Verify both directions yourself.

Deliverables, written into {wt}/seed/ :
- `patch.diff`: output of `git diff` for the source change ONLY (not the demonstration), applicable with `git apply` at the repository root.
- `demo/`: the demonstration test file(s), a small `demo/include.diff` for the `mod` line, and a short `README.md` with the exact command to run it and the observed output with and without the patch.
- `meta.json`: {{"property": "{pid}", "summary": "...", "needs": "<what specific input/sequence is needed>", "files_changed": [...], "existing_tests_run": "<commands and pass counts>", "demo_cmd": "<command>"}}.
Leave the worktree with the patch APPLIED (dirty, nothing committed) and the demo NOT installed. In your final answer, summarise the change, what it needs to manifest, and the test results.
"""
    open(f"/tmp/prompt-{tag}.txt", "w").write(txt)
    print(f"/tmp/prompt-{tag}.txt")
main()
