#!/bin/bash
# Runs the thorough tier of the given checks one after another; one summary line per check.
cd /verif
for id in "$@"; do
  start=$(date +%s)
  ./check "$id" --tier thorough > "/verif/work/thorough-$id.log" 2>&1
  rc=$?
  echo "$id exit=$rc secs=$(( $(date +%s) - start )) $(tail -1 /verif/work/thorough-$id.log | cut -c1-200)" >> /verif/work/thorough-summary.txt
done
