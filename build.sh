#!/bin/bash
# Compiles all harness test binaries (same flags as ./check); prints errors only.
cd /repo && CARGO_TARGET_DIR=/verif/target cargo --config /verif/cargo-verif.toml test --no-run --offline --lib -p astria-sequencer -p astria-merkle -p astria-core -p astria-conductor -p astria-sequencer-relayer -p astria-composer --features astria-sequencer/verif,astria-merkle/verif,astria-core/verif,astria-conductor/verif,astria-sequencer-relayer/verif,astria-composer/verif 2>&1 | grep -E "^error" -A 14 | head -${1:-120}
