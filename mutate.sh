#!/bin/bash
# usage: mutate.sh "<python replace: old|||new>" <file relative to /repo> <check id>...
# Applies a textual mutation to /repo, runs the given checks (quick), reverts.
set -u
spec="$1"; file="$2"; shift 2
cd /repo
python3 - "$spec" "$file" <<'PY' || exit 3
import sys
old, new = sys.argv[1].split('|||')
p = sys.argv[2]
s = open(p).read()
if s.count(old) < 1:
    print("MUTATION-NOT-APPLICABLE: pattern not found"); sys.exit(1)
open(p, 'w').write(s.replace(old, new, 1))
PY
git -C /repo diff --stat | tail -1
for id in "$@"; do
  out=$(cd /verif && ./check "$id" 2>&1)
  rc=$?
  echo "== $id exit=$rc"
  echo "$out" | grep -E "^VIOLATION|^  clause|MACHINERY|KNOWN" | head -6
done
git -C /repo checkout -- .
