#!/bin/bash
# usage: seedverify.sh <ID> <worktree> <package> <demo-src> <demo-dst-rel> <demo-test-filter> [include.diff]
# Confirms in the scratch worktree: (1) the package's lib tests pass with the patch, (2) the demo
# fails with the patch and passes without. Leaves the worktree with only the patch applied.
set -u
ID=$1; WT=$2; PKG=$3; SRC=$4; DST=$5; FILT=$6; INC=${7:-}
cd "$WT" || exit 2
export CARGO_TARGET_DIR=$WT/target
echo "--- existing tests with patch ($PKG)"
cargo test -p "$PKG" --offline --lib 2>&1 | grep -E "^test result|error\[" | head -3
cp "$SRC" "$DST"
[ -n "$INC" ] && git apply "$INC"
echo "--- demo WITH patch"
cargo test -p "$PKG" --offline $FILT 2>&1 | grep -E "^test result|error(\[|:)" | head -3
git diff > /tmp/$ID.full.diff
git checkout -q -- . ; [ -n "$INC" ] && git apply "$INC"
echo "--- demo WITHOUT patch"
cargo test -p "$PKG" --offline $FILT 2>&1 | grep -E "^test result|error(\[|:)" | head -3
git checkout -q -- . ; rm -f "$DST"; git apply seed/patch.diff; git status --short | head -5
