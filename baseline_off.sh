#!/bin/bash
# Runs the repository's pinned suite with the `verif` guard OFF (no feature) and compares the
# outcome with /root/.vp/BASELINE.json's stable_pass list. The pinned command uses nextest (one
# process per test); plain `cargo test` makes three sequencer tests order-dependent.
set -u
cd /repo
LOG=${1:-/verif/work/baseline_off.log}
mkdir -p "$(dirname "$LOG")"
[ -n "${VERIF_BASELINE_PARSE_ONLY:-}" ] || cargo nextest run --workspace --no-fail-fast --test-threads 8 --offline > "$LOG" 2>&1
python3 - "$LOG" <<'PY'
import json, re, sys
log = open(sys.argv[1]).read()
status = {}
for m in re.finditer(r'^\s*(PASS|FAIL|FLAKY \d+/\d+|TRY \d+ FAIL|TIMEOUT|SIGABRT|SIGSEGV|LEAK)\s+\[[^\]]*\]\s+(?:\(\s*\d+/\d+\)\s+)?(\S+)(?:\s+(\S+))?\s*$', log, re.M):
    st, a, b = m.group(1), m.group(2), m.group(3)
    name = a if b is None else f"{a}::{b}"
    if status.get(name) != 'PASS':
        status[name] = 'PASS' if (st in ('PASS', 'LEAK') or st.startswith('FLAKY')) else ('FAIL' if not st.startswith('TRY') else status.get(name, 'RETRY'))
base = json.load(open('/root/.vp/BASELINE.json'))
stable = base['stable_pass']
missing = [t for t in stable if t not in status]
failed = [t for t in stable if status.get(t) == 'FAIL']
print(f"stable_pass={len(stable)} passed={sum(1 for t in stable if status.get(t)=='PASS')} failed={len(failed)} missing={len(missing)}")
for t in failed: print("FAILED", t)
for t in missing[:20]: print("MISSING", t)
sys.exit(1 if failed or missing else 0)
PY
