// Explicit-state breadth-first explorer over *real* transition functions.
//
// A `Model` supplies: an initial live state, the events enabled in a state, a `step` that applies
// one event to (a fork / a replay of) the real implementation and evaluates the oracle on that
// transition, and a canonical key for deduplication. The explorer enumerates every history up to
// `max_depth` events (and, when events carry a cost, every history of total cost <= `max_cost`),
// level by level, on `workers` OS threads. Counts are deterministic: successors are generated in
// (parent order, event order), deduplicated in that order at a barrier per level, and the key of a
// state includes nothing but the model's canonical form (plus depth if `depth_in_key`).
#![allow(dead_code)]

use std::{
    collections::HashSet,
    fmt::Debug,
    sync::{
        atomic::{
            AtomicBool,
            AtomicUsize,
            Ordering,
        },
        Mutex,
    },
    time::{
        Duration,
        Instant,
    },
};

/// What the oracle says about one transition.
#[derive(Clone, Debug)]
pub struct Violation {
    pub clause: String,
    pub signature: String,
    pub detail: String,
}

pub enum Step<S> {
    /// The transition was executed on the implementation; `S` is the successor state.
    Next(S),
    /// The transition was executed and the oracle failed on it. The successor is not expanded.
    Violated(Violation),
    /// The transition was executed, the oracle failed on it, but the successor is still expanded
    /// (used for clauses with a listed known finding, so states behind it stay covered).
    Flagged(S, Violation),
    /// The event turned out not to be applicable here (counted, not expanded).
    Skip,
}

pub trait Model: Sync {
    type Ev: Clone + Debug + Send + Sync;
    type St: Send + Sync;

    fn init(&self) -> Self::St;
    /// Events enabled in `st`, simplest first. `hist` is the history that reached `st`.
    fn enabled(&self, st: &Self::St, hist: &[Self::Ev]) -> Vec<Self::Ev>;
    /// Deviation cost of an event (0 = default path).
    fn cost(&self, _ev: &Self::Ev) -> u32 {
        0
    }
    fn step(&self, st: &Self::St, hist: &[Self::Ev], ev: &Self::Ev) -> Step<Self::St>;
    fn canon(&self, st: &Self::St) -> u128;
    /// A coarse, property-level outcome label of a state; the explorer counts distinct labels so a
    /// vacuous exploration (everything collapses to one outcome) is visible.
    fn outcome(&self, _st: &Self::St) -> u64 {
        0
    }
}

#[derive(Clone, Debug)]
pub struct Config {
    pub max_depth: usize,
    pub max_cost: u32,
    pub workers: usize,
    pub state_cap: usize,
    pub time_cap: Duration,
    pub depth_in_key: bool,
}

impl Default for Config {
    fn default() -> Self {
        Self {
            max_depth: 3,
            max_cost: u32::MAX,
            workers: 8,
            state_cap: 5_000_000,
            time_cap: Duration::from_secs(3600),
            depth_in_key: false,
        }
    }
}

#[derive(Debug)]
pub struct FoundViolation<Ev> {
    pub history: Vec<Ev>,
    pub violation: Violation,
}

#[derive(Debug)]
pub struct Outcome<Ev> {
    pub states: usize,
    pub transitions: usize,
    pub skipped: usize,
    pub executions: usize,
    pub distinct_outcomes: usize,
    pub completed_depth: usize,
    pub per_depth_states: Vec<usize>,
    pub violations: Vec<FoundViolation<Ev>>,
    pub cap_hit: Option<String>,
    pub sample_histories: Vec<Vec<Ev>>,
}

struct Node<M: Model> {
    st: M::St,
    hist: Vec<M::Ev>,
    cost: u32,
}

enum Succ<M: Model> {
    Next(M::St),
    Violated(Violation),
    Flagged(M::St, Violation),
    Skip,
}

pub fn explore<M: Model>(model: &M, cfg: &Config) -> Outcome<M::Ev> {
    let started = Instant::now();
    let mut seen: HashSet<(u128, usize)> = HashSet::new();
    let mut outcomes: HashSet<u64> = HashSet::new();
    let init = model.init();
    seen.insert((model.canon(&init), 0));
    outcomes.insert(model.outcome(&init));
    let mut frontier: Vec<Node<M>> = vec![Node {
        st: init,
        hist: Vec::new(),
        cost: 0,
    }];
    let mut out = Outcome {
        states: 1,
        transitions: 0,
        skipped: 0,
        executions: 0,
        distinct_outcomes: 0,
        completed_depth: 0,
        per_depth_states: vec![1],
        violations: Vec::new(),
        cap_hit: None,
        sample_histories: Vec::new(),
    };
    let stop = AtomicBool::new(false);

    for depth in 1..=cfg.max_depth {
        if frontier.is_empty() {
            out.completed_depth = cfg.max_depth;
            break;
        }
        // Work items: (parent index, event) in deterministic order.
        let mut work: Vec<(usize, M::Ev, u32)> = Vec::new();
        for (pi, node) in frontier.iter().enumerate() {
            for ev in model.enabled(&node.st, &node.hist) {
                let c = node.cost.saturating_add(model.cost(&ev));
                if c <= cfg.max_cost {
                    work.push((pi, ev, c));
                }
            }
        }
        let next_ix = AtomicUsize::new(0);
        let results: Mutex<Vec<(usize, Succ<M>)>> = Mutex::new(Vec::with_capacity(work.len()));
        let nworkers = cfg.workers.max(1).min(work.len().max(1));
        std::thread::scope(|scope| {
            for _ in 0..nworkers {
                scope.spawn(|| {
                    let mut local: Vec<(usize, Succ<M>)> = Vec::new();
                    loop {
                        if stop.load(Ordering::Relaxed) {
                            break;
                        }
                        let i = next_ix.fetch_add(1, Ordering::Relaxed);
                        if i >= work.len() {
                            break;
                        }
                        let (pi, ev, _) = &work[i];
                        let parent = &frontier[*pi];
                        let r = match model.step(&parent.st, &parent.hist, ev) {
                            Step::Next(s) => Succ::Next(s),
                            Step::Violated(v) => Succ::Violated(v),
                            Step::Flagged(s, v) => Succ::Flagged(s, v),
                            Step::Skip => Succ::Skip,
                        };
                        local.push((i, r));
                        if started.elapsed() > cfg.time_cap {
                            stop.store(true, Ordering::Relaxed);
                        }
                    }
                    results.lock().unwrap().extend(local);
                });
            }
        });
        let mut results = results.into_inner().unwrap();
        results.sort_by_key(|(i, _)| *i);
        let complete_level = results.len() == work.len();
        let mut next: Vec<Node<M>> = Vec::new();
        for (i, succ) in results {
            let (pi, ev, cost) = &work[i];
            out.executions += 1;
            match succ {
                Succ::Skip => out.skipped += 1,
                Succ::Violated(v) => {
                    out.transitions += 1;
                    let mut history = frontier[*pi].hist.clone();
                    history.push(ev.clone());
                    out.violations.push(FoundViolation {
                        history,
                        violation: v,
                    });
                }
                Succ::Flagged(..) | Succ::Next(_) => {
                    let st = match succ {
                        Succ::Next(st) => st,
                        Succ::Flagged(st, v) => {
                            let mut history = frontier[*pi].hist.clone();
                            history.push(ev.clone());
                            out.violations.push(FoundViolation {
                                history,
                                violation: v,
                            });
                            st
                        }
                        _ => unreachable!(),
                    };
                    out.transitions += 1;
                    let key = (
                        model.canon(&st),
                        if cfg.depth_in_key { depth } else { 0 },
                    );
                    outcomes.insert(model.outcome(&st));
                    if seen.insert(key) {
                        let mut hist = frontier[*pi].hist.clone();
                        hist.push(ev.clone());
                        if out.sample_histories.len() < 6 && depth >= cfg.max_depth.min(2) {
                            out.sample_histories.push(hist.clone());
                        }
                        next.push(Node {
                            st,
                            hist,
                            cost: *cost,
                        });
                    }
                }
            }
        }
        out.states += next.len();
        out.per_depth_states.push(next.len());
        if !complete_level {
            out.cap_hit = Some(format!(
                "time cap {:?} hit at depth {depth} ({} of {} transitions executed)",
                cfg.time_cap,
                out.executions,
                work.len()
            ));
            break;
        }
        out.completed_depth = depth;
        if seen.len() > cfg.state_cap {
            out.cap_hit = Some(format!("state cap {} hit at depth {depth}", cfg.state_cap));
            break;
        }
        frontier = next;
    }
    out.distinct_outcomes = outcomes.len();
    out
}

/// Replays one history from the initial state through `Model::step`; returns the violation on the
/// last step, if any. Used for `--replay` and for the determinism double-check.
pub fn replay<M: Model>(model: &M, history: &[M::Ev]) -> Result<Option<Violation>, String> {
    let mut st = model.init();
    let mut hist: Vec<M::Ev> = Vec::new();
    for (n, ev) in history.iter().enumerate() {
        match model.step(&st, &hist, ev) {
            Step::Next(s) => {
                st = s;
                hist.push(ev.clone());
            }
            Step::Flagged(s, v) => {
                if n + 1 == history.len() {
                    return Ok(Some(v));
                }
                st = s;
                hist.push(ev.clone());
            }
            Step::Violated(v) => {
                if n + 1 == history.len() {
                    return Ok(Some(v));
                }
                return Err(format!(
                    "replay diverged: violation `{}` at step {n} of {}",
                    v.clause,
                    history.len()
                ));
            }
            Step::Skip => {
                return Err(format!("replay diverged: step {n} ({ev:?}) not applicable"));
            }
        }
    }
    Ok(None)
}

/// Toy model with a known state count, used by the engine self-test: two counters in 0..=3,
/// events inc0/inc1/reset; reachable states = 16, and the invariant `c0 + c1 != 6` is violated by
/// exactly the histories reaching (3,3).
pub struct Toy;

impl Model for Toy {
    type Ev = u8;
    type St = (u8, u8);

    fn init(&self) -> (u8, u8) {
        (0, 0)
    }

    fn enabled(&self, _st: &(u8, u8), _hist: &[u8]) -> Vec<u8> {
        vec![0, 1, 2]
    }

    fn step(&self, st: &(u8, u8), _hist: &[u8], ev: &u8) -> Step<(u8, u8)> {
        let next = match ev {
            0 if st.0 < 3 => (st.0 + 1, st.1),
            1 if st.1 < 3 => (st.0, st.1 + 1),
            2 => (0, 0),
            _ => return Step::Skip,
        };
        if next.0 + next.1 == 6 {
            return Step::Violated(Violation {
                clause: "toy".into(),
                signature: "3+3".into(),
                detail: String::new(),
            });
        }
        Step::Next(next)
    }

    fn canon(&self, st: &(u8, u8)) -> u128 {
        u128::from(st.0) << 8 | u128::from(st.1)
    }

    fn outcome(&self, st: &(u8, u8)) -> u64 {
        u64::from(st.0 + st.1)
    }
}

pub fn self_test() {
    for workers in [1, 7] {
        let out = explore(
            &Toy,
            &Config {
                max_depth: 8,
                workers,
                ..Config::default()
            },
        );
        assert_eq!(out.states, 15, "toy model: 16 reachable minus the violating (3,3)");
        assert_eq!(out.violations.len(), 2, "(3,2)+inc1 and (2,3)+inc0");
        assert!(out.violations.iter().all(|v| v.history.len() == 6));
        assert_eq!(out.distinct_outcomes, 6);
        assert!(out.cap_hit.is_none());
        assert_eq!(replay(&Toy, &out.violations[0].history).unwrap().unwrap().clause, "toy");
    }
}
