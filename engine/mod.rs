// Shared engine, `#[path]`-included by every in-crate harness. std-only.
pub mod explore;
pub mod json;
pub mod report;
pub mod wide;
pub mod wire;
