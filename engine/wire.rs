// Protobuf wire-format tree and its single-node mutation menu (used by the C17 sweeps in the
// conductor and sequencer harnesses). std-only.
#![allow(dead_code)]

// ---------------------------------------------------------------------------------------------
// Protobuf wire tree
// ---------------------------------------------------------------------------------------------

#[derive(Clone, Debug, PartialEq)]
pub enum Val {
    Varint(u64),
    Fixed64([u8; 8]),
    Fixed32([u8; 4]),
    Bytes(Vec<u8>),
    Msg(Vec<Field>),
    /// length-delimited field whose declared length differs from its payload (mutants only)
    RawLen(u64, Vec<u8>),
}

#[derive(Clone, Debug, PartialEq)]
pub struct Field {
    pub num: u32,
    pub val: Val,
}

pub fn read_varint(b: &[u8], pos: &mut usize) -> Option<u64> {
    let mut v = 0u64;
    for i in 0..10 {
        let byte = *b.get(*pos)?;
        *pos += 1;
        v |= u64::from(byte & 0x7f) << (7 * i);
        if byte & 0x80 == 0 {
            return Some(v);
        }
    }
    None
}

pub fn write_varint(mut v: u64, out: &mut Vec<u8>) {
    loop {
        let byte = (v & 0x7f) as u8;
        v >>= 7;
        if v == 0 {
            out.push(byte);
            return;
        }
        out.push(byte | 0x80);
    }
}

pub fn parse(b: &[u8], depth: usize) -> Option<Vec<Field>> {
    let mut pos = 0;
    let mut out = Vec::new();
    while pos < b.len() {
        let key = read_varint(b, &mut pos)?;
        let num = u32::try_from(key >> 3).ok()?;
        if num == 0 || num > 64 {
            return None;
        }
        let val = match key & 7 {
            0 => Val::Varint(read_varint(b, &mut pos)?),
            1 => {
                let s = b.get(pos..pos + 8)?;
                pos += 8;
                Val::Fixed64(s.try_into().unwrap())
            }
            5 => {
                let s = b.get(pos..pos + 4)?;
                pos += 4;
                Val::Fixed32(s.try_into().unwrap())
            }
            2 => {
                let len = usize::try_from(read_varint(b, &mut pos)?).ok()?;
                let s = b.get(pos..pos.checked_add(len)?)?;
                pos += len;
                // heuristic: a payload that parses completely as fields is treated as a message
                // (a wrong guess only changes which mutants are generated, never the oracle)
                match (depth < 8 && !s.is_empty()).then(|| parse(s, depth + 1)).flatten() {
                    Some(fields) if !fields.is_empty() => Val::Msg(fields),
                    _ => Val::Bytes(s.to_vec()),
                }
            }
            _ => return None,
        };
        out.push(Field {
            num,
            val,
        });
    }
    Some(out)
}

pub fn encode(fields: &[Field]) -> Vec<u8> {
    let mut out = Vec::new();
    for f in fields {
        let (wt, payload): (u64, Option<Vec<u8>>) = match &f.val {
            Val::Varint(_) => (0, None),
            Val::Fixed64(_) => (1, None),
            Val::Fixed32(_) => (5, None),
            Val::Bytes(b) => (2, Some(b.clone())),
            Val::Msg(m) => (2, Some(encode(m))),
            Val::RawLen(_, p) => (2, Some(p.clone())),
        };
        write_varint((u64::from(f.num) << 3) | wt, &mut out);
        match &f.val {
            Val::Varint(v) => write_varint(*v, &mut out),
            Val::Fixed64(x) => out.extend_from_slice(x),
            Val::Fixed32(x) => out.extend_from_slice(x),
            Val::RawLen(len, _) => {
                write_varint(*len, &mut out);
                out.extend_from_slice(&payload.unwrap());
            }
            _ => {
                let p = payload.unwrap();
                write_varint(p.len() as u64, &mut out);
                out.extend_from_slice(&p);
            }
        }
    }
    out
}

pub fn count_nodes(fields: &[Field]) -> usize {
    fields.iter().map(|f| 1 + if let Val::Msg(m) = &f.val { count_nodes(m) } else { 0 }).sum()
}

/// Replacement values for one node (not counting structural edits of the sibling list).
pub fn value_variants(v: &Val) -> Vec<(String, Val)> {
    let mut out = Vec::new();
    match v {
        Val::Varint(x) => {
            for (name, n) in [
                ("0", 0u64),
                ("1", 1),
                ("+1", x.wrapping_add(1)),
                ("-1", x.wrapping_sub(1)),
                ("i32max", i32::MAX as u64),
                ("u32max", u64::from(u32::MAX)),
                ("2^32", 1 << 32),
                ("2^63", 1 << 63),
                ("u64max", u64::MAX),
            ] {
                if n != *x {
                    out.push((format!("varint={name}"), Val::Varint(n)));
                }
            }
        }
        Val::Fixed64(x) => {
            out.push(("fixed64=0".into(), Val::Fixed64([0; 8])));
            out.push(("fixed64=ff".into(), Val::Fixed64([0xff; 8])));
            let mut y = *x;
            y[0] ^= 1;
            out.push(("fixed64^1".into(), Val::Fixed64(y)));
        }
        Val::Fixed32(x) => {
            out.push(("fixed32=0".into(), Val::Fixed32([0; 4])));
            out.push(("fixed32=ff".into(), Val::Fixed32([0xff; 4])));
            let mut y = *x;
            y[0] ^= 1;
            out.push(("fixed32^1".into(), Val::Fixed32(y)));
        }
        Val::Bytes(b) => {
            if !b.is_empty() {
                out.push(("bytes=empty".into(), Val::Bytes(vec![])));
                out.push(("bytes-last".into(), Val::Bytes(b[..b.len() - 1].to_vec())));
                out.push(("bytes-first".into(), Val::Bytes(b[1..].to_vec())));
                let mut f = b.clone();
                f[0] ^= 1;
                out.push(("bytes^first".into(), Val::Bytes(f)));
                let mut l = b.clone();
                *l.last_mut().unwrap() ^= 0x80;
                out.push(("bytes^last".into(), Val::Bytes(l)));
                out.push(("bytes=zeros".into(), Val::Bytes(vec![0; b.len()])));
            }
            let mut e = b.clone();
            e.push(0);
            out.push(("bytes+0".into(), Val::Bytes(e)));
            out.push(("len+1".into(), Val::RawLen(b.len() as u64 + 1, b.clone())));
            if !b.is_empty() {
                out.push(("len-1".into(), Val::RawLen(b.len() as u64 - 1, b.clone())));
            }
            out.push(("len=2^31".into(), Val::RawLen(1 << 31, b.clone())));
        }
        Val::Msg(m) => {
            let p = encode(m);
            out.push(("msg=empty".into(), Val::Bytes(vec![])));
            out.push(("len+1".into(), Val::RawLen(p.len() as u64 + 1, p.clone())));
            if !p.is_empty() {
                out.push(("len-1".into(), Val::RawLen(p.len() as u64 - 1, p.clone())));
                out.push(("msg-last-byte".into(), Val::Bytes(p[..p.len() - 1].to_vec())));
            }
        }
        Val::RawLen(..) => {}
    }
    out
}

/// Every single-node mutant of `fields`, with a description of the edit.
pub fn mutants(fields: &[Field], path: &str) -> Vec<(String, Vec<Field>)> {
    let mut out = Vec::new();
    for i in 0..fields.len() {
        let here = format!("{path}/{}#{i}", fields[i].num);
        // structural edits of the sibling list
        let mut del = fields.to_vec();
        del.remove(i);
        out.push((format!("{here}:delete"), del));
        let mut dup = fields.to_vec();
        dup.insert(i, fields[i].clone());
        out.push((format!("{here}:duplicate"), dup));
        if i + 1 < fields.len() && fields[i] != fields[i + 1] {
            let mut sw = fields.to_vec();
            sw.swap(i, i + 1);
            out.push((format!("{here}:swap-next"), sw));
        }
        // renumber the field (unknown field / another field of the message)
        for delta in [1u32, 15] {
            let mut rn = fields.to_vec();
            rn[i].num = (fields[i].num + delta - 1) % 30 + 1;
            out.push((format!("{here}:field-number+{delta}"), rn));
        }
        for (name, v) in value_variants(&fields[i].val) {
            let mut m = fields.to_vec();
            m[i].val = v;
            out.push((format!("{here}:{name}"), m));
        }
        if let Val::Msg(children) = &fields[i].val {
            for (name, c) in mutants(children, &here) {
                let mut m = fields.to_vec();
                m[i].val = Val::Msg(c);
                out.push((name, m));
            }
        }
    }
    out
}

