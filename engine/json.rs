// Minimal std-only JSON value + writer + parser, shared by every harness (`#[path]`-included).
// No dependency so it can be used from crates that have no serde_json (astria-merkle).
#![allow(dead_code)]

use std::fmt::Write as _;

#[derive(Clone, Debug, PartialEq)]
pub enum J {
    Null,
    Bool(bool),
    Int(i128),
    Float(f64),
    Str(String),
    Arr(Vec<J>),
    Obj(Vec<(String, J)>),
}

impl J {
    pub fn obj() -> J {
        J::Obj(Vec::new())
    }

    pub fn s(v: impl Into<String>) -> J {
        J::Str(v.into())
    }

    pub fn i(v: impl TryInto<i128>) -> J {
        J::Int(v.try_into().ok().expect("integer fits i128"))
    }

    pub fn arr<I: IntoIterator<Item = J>>(it: I) -> J {
        J::Arr(it.into_iter().collect())
    }

    pub fn strs<I: IntoIterator<Item = S>, S: Into<String>>(it: I) -> J {
        J::Arr(it.into_iter().map(|s| J::Str(s.into())).collect())
    }

    #[must_use]
    pub fn with(mut self, k: &str, v: J) -> J {
        self.set(k, v);
        self
    }

    pub fn set(&mut self, k: &str, v: J) {
        if let J::Obj(fields) = self {
            if let Some(slot) = fields.iter_mut().find(|(kk, _)| kk == k) {
                slot.1 = v;
            } else {
                fields.push((k.to_string(), v));
            }
        } else {
            panic!("J::set on non-object");
        }
    }

    pub fn get(&self, k: &str) -> Option<&J> {
        match self {
            J::Obj(fields) => fields.iter().find(|(kk, _)| kk == k).map(|(_, v)| v),
            _ => None,
        }
    }

    pub fn as_str(&self) -> Option<&str> {
        match self {
            J::Str(s) => Some(s),
            _ => None,
        }
    }

    pub fn as_int(&self) -> Option<i128> {
        match self {
            J::Int(i) => Some(*i),
            _ => None,
        }
    }

    pub fn as_arr(&self) -> Option<&[J]> {
        match self {
            J::Arr(a) => Some(a),
            _ => None,
        }
    }

    pub fn render(&self) -> String {
        let mut out = String::new();
        self.write(&mut out);
        out
    }

    fn write(&self, out: &mut String) {
        match self {
            J::Null => out.push_str("null"),
            J::Bool(b) => out.push_str(if *b { "true" } else { "false" }),
            J::Int(i) => {
                let _ = write!(out, "{i}");
            }
            J::Float(f) => {
                if f.is_finite() {
                    let _ = write!(out, "{f:.3}");
                } else {
                    out.push_str("null");
                }
            }
            J::Str(s) => write_str(s, out),
            J::Arr(a) => {
                out.push('[');
                for (n, v) in a.iter().enumerate() {
                    if n > 0 {
                        out.push(',');
                    }
                    v.write(out);
                }
                out.push(']');
            }
            J::Obj(o) => {
                out.push('{');
                for (n, (k, v)) in o.iter().enumerate() {
                    if n > 0 {
                        out.push(',');
                    }
                    write_str(k, out);
                    out.push(':');
                    v.write(out);
                }
                out.push('}');
            }
        }
    }

    pub fn parse(src: &str) -> Result<J, String> {
        let bytes = src.as_bytes();
        let mut pos = 0usize;
        let v = parse_value(bytes, &mut pos)?;
        skip_ws(bytes, &mut pos);
        if pos != bytes.len() {
            return Err(format!("trailing data at byte {pos}"));
        }
        Ok(v)
    }
}

fn write_str(s: &str, out: &mut String) {
    out.push('"');
    for c in s.chars() {
        match c {
            '"' => out.push_str("\\\""),
            '\\' => out.push_str("\\\\"),
            '\n' => out.push_str("\\n"),
            '\r' => out.push_str("\\r"),
            '\t' => out.push_str("\\t"),
            c if (c as u32) < 0x20 => {
                let _ = write!(out, "\\u{:04x}", c as u32);
            }
            c => out.push(c),
        }
    }
    out.push('"');
}

fn skip_ws(b: &[u8], pos: &mut usize) {
    while *pos < b.len() && matches!(b[*pos], b' ' | b'\n' | b'\r' | b'\t') {
        *pos += 1;
    }
}

fn parse_value(b: &[u8], pos: &mut usize) -> Result<J, String> {
    skip_ws(b, pos);
    let Some(&c) = b.get(*pos) else {
        return Err("unexpected end".into());
    };
    match c {
        b'n' => expect_lit(b, pos, "null", J::Null),
        b't' => expect_lit(b, pos, "true", J::Bool(true)),
        b'f' => expect_lit(b, pos, "false", J::Bool(false)),
        b'"' => Ok(J::Str(parse_string(b, pos)?)),
        b'[' => {
            *pos += 1;
            let mut items = Vec::new();
            loop {
                skip_ws(b, pos);
                if b.get(*pos) == Some(&b']') {
                    *pos += 1;
                    break;
                }
                items.push(parse_value(b, pos)?);
                skip_ws(b, pos);
                match b.get(*pos) {
                    Some(b',') => *pos += 1,
                    Some(b']') => {
                        *pos += 1;
                        break;
                    }
                    _ => return Err(format!("expected , or ] at {pos}")),
                }
            }
            Ok(J::Arr(items))
        }
        b'{' => {
            *pos += 1;
            let mut fields = Vec::new();
            loop {
                skip_ws(b, pos);
                if b.get(*pos) == Some(&b'}') {
                    *pos += 1;
                    break;
                }
                let k = parse_string(b, pos)?;
                skip_ws(b, pos);
                if b.get(*pos) != Some(&b':') {
                    return Err(format!("expected : at {pos}"));
                }
                *pos += 1;
                let v = parse_value(b, pos)?;
                fields.push((k, v));
                skip_ws(b, pos);
                match b.get(*pos) {
                    Some(b',') => *pos += 1,
                    Some(b'}') => {
                        *pos += 1;
                        break;
                    }
                    _ => return Err(format!("expected , or }} at {pos}")),
                }
            }
            Ok(J::Obj(fields))
        }
        _ => {
            let start = *pos;
            while *pos < b.len() && matches!(b[*pos], b'-' | b'+' | b'.' | b'e' | b'E' | b'0'..=b'9')
            {
                *pos += 1;
            }
            let txt = std::str::from_utf8(&b[start..*pos]).map_err(|e| e.to_string())?;
            if let Ok(i) = txt.parse::<i128>() {
                Ok(J::Int(i))
            } else {
                txt.parse::<f64>()
                    .map(J::Float)
                    .map_err(|_| format!("bad number `{txt}` at {start}"))
            }
        }
    }
}

fn expect_lit(b: &[u8], pos: &mut usize, lit: &str, v: J) -> Result<J, String> {
    if b[*pos..].starts_with(lit.as_bytes()) {
        *pos += lit.len();
        Ok(v)
    } else {
        Err(format!("bad literal at {pos}"))
    }
}

fn parse_string(b: &[u8], pos: &mut usize) -> Result<String, String> {
    if b.get(*pos) != Some(&b'"') {
        return Err(format!("expected string at {pos}"));
    }
    *pos += 1;
    let mut out = Vec::new();
    loop {
        let Some(&c) = b.get(*pos) else {
            return Err("unterminated string".into());
        };
        *pos += 1;
        match c {
            b'"' => break,
            b'\\' => {
                let Some(&e) = b.get(*pos) else {
                    return Err("unterminated escape".into());
                };
                *pos += 1;
                match e {
                    b'n' => out.push(b'\n'),
                    b'r' => out.push(b'\r'),
                    b't' => out.push(b'\t'),
                    b'b' => out.push(8),
                    b'f' => out.push(12),
                    b'u' => {
                        let hex = std::str::from_utf8(b.get(*pos..*pos + 4).ok_or("short \\u")?)
                            .map_err(|e| e.to_string())?;
                        let cp = u32::from_str_radix(hex, 16).map_err(|e| e.to_string())?;
                        *pos += 4;
                        let ch = char::from_u32(cp).unwrap_or('\u{fffd}');
                        let mut buf = [0u8; 4];
                        out.extend_from_slice(ch.encode_utf8(&mut buf).as_bytes());
                    }
                    other => out.push(other),
                }
            }
            c => out.push(c),
        }
    }
    String::from_utf8(out).map_err(|e| e.to_string())
}
