// Signed integer wide enough for sums/differences of a handful of u128 values (sign + 256-bit
// magnitude), so reference arithmetic never saturates or wraps.
#![allow(dead_code)]

#[derive(Clone, Copy, Debug, Default, PartialEq, Eq, PartialOrd, Ord, Hash)]
pub struct Wide {
    neg: bool,
    hi: u128,
    lo: u128,
}

impl Wide {
    pub const ZERO: Wide = Wide {
        neg: false,
        hi: 0,
        lo: 0,
    };

    pub fn from_u128(v: u128) -> Self {
        Wide {
            neg: false,
            hi: 0,
            lo: v,
        }
    }

    pub fn is_zero(&self) -> bool {
        self.hi == 0 && self.lo == 0
    }

    pub fn is_negative(&self) -> bool {
        self.neg && !self.is_zero()
    }

    pub fn neg(self) -> Self {
        if self.is_zero() {
            self
        } else {
            Wide {
                neg: !self.neg,
                ..self
            }
        }
    }

    fn mag_add(a: (u128, u128), b: (u128, u128)) -> (u128, u128) {
        let (lo, carry) = a.1.overflowing_add(b.1);
        let hi = a.0.checked_add(b.0).and_then(|h| h.checked_add(u128::from(carry))).expect("Wide overflow");
        (hi, lo)
    }

    fn mag_sub(a: (u128, u128), b: (u128, u128)) -> (u128, u128) {
        // requires a >= b
        let (lo, borrow) = a.1.overflowing_sub(b.1);
        let hi = a.0 - b.0 - u128::from(borrow);
        (hi, lo)
    }

    pub fn add(self, other: Wide) -> Wide {
        let a = (self.hi, self.lo);
        let b = (other.hi, other.lo);
        let r = if self.neg == other.neg {
            let (hi, lo) = Self::mag_add(a, b);
            Wide {
                neg: self.neg,
                hi,
                lo,
            }
        } else if a >= b {
            let (hi, lo) = Self::mag_sub(a, b);
            Wide {
                neg: self.neg,
                hi,
                lo,
            }
        } else {
            let (hi, lo) = Self::mag_sub(b, a);
            Wide {
                neg: other.neg,
                hi,
                lo,
            }
        };
        if r.is_zero() {
            Wide::ZERO
        } else {
            r
        }
    }

    pub fn sub(self, other: Wide) -> Wide {
        self.add(other.neg())
    }

    /// b - a for unsigned a, b
    pub fn diff(a: u128, b: u128) -> Wide {
        Wide::from_u128(b).sub(Wide::from_u128(a))
    }

    /// 3 * self
    pub fn times(self, k: u32) -> Wide {
        let mut acc = Wide::ZERO;
        for _ in 0..k {
            acc = acc.add(self);
        }
        acc
    }
}

impl std::fmt::Display for Wide {
    fn fmt(&self, f: &mut std::fmt::Formatter<'_>) -> std::fmt::Result {
        let sign = if self.is_negative() { "-" } else { "+" };
        if self.hi == 0 {
            write!(f, "{sign}{}", self.lo)
        } else {
            write!(f, "{sign}({}*2^128+{})", self.hi, self.lo)
        }
    }
}
