// Stage report plumbing shared by every harness (`#[path]`-included next to json.rs).
//
// A harness stage (one `#[test]` inside a crate of /repo) explores, collects `Finding`s and
// coverage counters, and calls `Report::finish`, which writes
//   /verif/work/<property>/<stage>.json      (read and merged by /verif/check into the evidence)
//   /verif/replays/<property>/<hash>.json    (one per distinct finding signature)
// The decision VIOLATION vs KNOWN-FINDING is taken by /verif/check from /verif/known_findings.json;
// the stage never reads or writes that file.
#![allow(dead_code)]

use std::{
    collections::BTreeMap,
    hash::{
        Hash,
        Hasher,
    },
    time::Instant,
};

use super::json::J;

#[derive(Clone, Copy, Debug, PartialEq, Eq)]
pub enum Tier {
    Quick,
    Thorough,
}

pub fn tier() -> Tier {
    match std::env::var("VERIF_TIER").as_deref() {
        Ok("thorough") => Tier::Thorough,
        _ => Tier::Quick,
    }
}

pub fn seed() -> u64 {
    std::env::var("VERIF_SEED")
        .ok()
        .and_then(|s| s.parse().ok())
        .unwrap_or(0)
}

pub fn replay_path() -> Option<String> {
    std::env::var("VERIF_REPLAY").ok().filter(|s| !s.is_empty())
}

pub fn workers() -> usize {
    std::env::var("VERIF_WORKERS")
        .ok()
        .and_then(|s| s.parse().ok())
        .unwrap_or_else(|| {
            std::thread::available_parallelism()
                .map(std::num::NonZeroUsize::get)
                .unwrap_or(4)
        })
        .clamp(1, 32)
}

/// Deterministic 64-bit hash (SipHash with the fixed default keys).
pub fn h64<T: Hash + ?Sized>(v: &T) -> u64 {
    #[allow(deprecated)]
    let mut h = std::hash::SipHasher::new_with_keys(0x7665_7269_665f_6b30, 0x7665_7269_665f_6b31);
    v.hash(&mut h);
    h.finish()
}

/// Deterministic 128-bit hash built from two independently keyed 64-bit hashes.
pub fn h128<T: Hash + ?Sized>(v: &T) -> u128 {
    #[allow(deprecated)]
    let mut a = std::hash::SipHasher::new_with_keys(1, 2);
    #[allow(deprecated)]
    let mut b = std::hash::SipHasher::new_with_keys(0xdead_beef, 0x1234_5678_9abc_def0);
    v.hash(&mut a);
    v.hash(&mut b);
    (u128::from(a.finish()) << 64) | u128::from(b.finish())
}

pub fn hex(bytes: &[u8]) -> String {
    let mut s = String::with_capacity(bytes.len() * 2);
    for b in bytes {
        s.push_str(&format!("{b:02x}"));
    }
    s
}

pub fn unhex(s: &str) -> Vec<u8> {
    (0..s.len() / 2)
        .map(|i| u8::from_str_radix(&s[2 * i..2 * i + 2], 16).expect("hex"))
        .collect()
}

#[derive(Clone, Debug)]
pub struct Finding {
    /// Which clause of the property's oracle failed (stable identifier).
    pub clause: String,
    /// Stable function of the *minimal* failing case; used to match known findings.
    pub signature: String,
    /// Human readable observed-vs-expected.
    pub detail: String,
    /// Enough to re-execute exactly this case (`./check <id> --replay <path>`).
    pub case: J,
}

pub struct Report {
    pub property: String,
    pub stage: String,
    started: Instant,
    counters: BTreeMap<String, i128>,
    extra: Vec<(String, J)>,
    samples: Vec<J>,
    max_samples: usize,
    assumptions: Vec<String>,
    findings: BTreeMap<(String, String), Finding>,
    max_findings: usize,
    pub suppressed_findings: usize,
    rule: String,
    exhaustive: bool,
    caps_hit: Vec<String>,
}

impl Report {
    pub fn new(property: &str, stage: &str) -> Self {
        Self {
            property: property.to_string(),
            stage: stage.to_string(),
            started: Instant::now(),
            counters: BTreeMap::new(),
            extra: Vec::new(),
            samples: Vec::new(),
            max_samples: 12,
            assumptions: Vec::new(),
            findings: BTreeMap::new(),
            max_findings: 40,
            suppressed_findings: 0,
            rule: String::new(),
            exhaustive: true,
            caps_hit: Vec::new(),
        }
    }

    pub fn add(&mut self, counter: &str, n: impl TryInto<i128>) {
        *self.counters.entry(counter.to_string()).or_insert(0) +=
            n.try_into().ok().expect("fits i128");
    }

    pub fn counter(&self, counter: &str) -> i128 {
        self.counters.get(counter).copied().unwrap_or(0)
    }

    pub fn set_extra(&mut self, key: &str, v: J) {
        if let Some(slot) = self.extra.iter_mut().find(|(k, _)| k == key) {
            slot.1 = v;
        } else {
            self.extra.push((key.to_string(), v));
        }
    }

    pub fn rule(&mut self, rule: &str) {
        if !self.rule.is_empty() {
            self.rule.push_str(" | ");
        }
        self.rule.push_str(rule);
    }

    pub fn assume(&mut self, a: &str) {
        if !self.assumptions.iter().any(|x| x == a) {
            self.assumptions.push(a.to_string());
        }
    }

    pub fn sample(&mut self, s: J) {
        if self.samples.len() < self.max_samples {
            self.samples.push(s);
        }
    }

    pub fn wants_sample(&self) -> bool {
        self.samples.len() < self.max_samples
    }

    /// A cap (time, states) was hit before the declared bound was completed.
    pub fn cap_hit(&mut self, what: &str) {
        self.exhaustive = false;
        self.caps_hit.push(what.to_string());
    }

    pub fn finding(&mut self, f: Finding) {
        let key = (f.clause.clone(), f.signature.clone());
        if self.findings.contains_key(&key) {
            self.suppressed_findings += 1;
            return;
        }
        if self.findings.len() >= self.max_findings {
            self.suppressed_findings += 1;
            return;
        }
        self.findings.insert(key, f);
    }

    /// Merges a per-worker report into this one (counters summed, findings deduplicated).
    pub fn absorb(&mut self, other: Report) {
        for (k, v) in other.counters {
            *self.counters.entry(k).or_insert(0) += v;
        }
        for s in other.samples {
            self.sample(s);
        }
        for a in other.assumptions {
            self.assume(&a);
        }
        self.suppressed_findings += other.suppressed_findings;
        for (_, f) in other.findings {
            self.finding(f);
        }
        if !other.exhaustive {
            self.exhaustive = false;
        }
        self.caps_hit.extend(other.caps_hit);
    }

    pub fn n_findings(&self) -> usize {
        self.findings.len()
    }

    pub fn elapsed_s(&self) -> f64 {
        self.started.elapsed().as_secs_f64()
    }

    /// Writes the stage file and the replay artefacts. Never panics on a finding: the verdict is
    /// taken by /verif/check.
    pub fn finish(self) {
        let work_dir = format!("/verif/work/{}", self.property);
        let replay_dir = format!("/verif/replays/{}", self.property);
        std::fs::create_dir_all(&work_dir).expect("create work dir");
        let mut findings = Vec::new();
        for f in self.findings.values() {
            std::fs::create_dir_all(&replay_dir).expect("create replay dir");
            let name = format!("{:016x}", h64(&(f.clause.as_str(), f.signature.as_str())));
            let path = format!("{replay_dir}/{}-{name}.json", self.stage);
            let body = J::obj()
                .with("property", J::s(&self.property))
                .with("stage", J::s(&self.stage))
                .with("clause", J::s(&f.clause))
                .with("signature", J::s(&f.signature))
                .with("detail", J::s(&f.detail))
                .with("case", f.case.clone());
            std::fs::write(&path, body.render()).expect("write replay");
            println!(
                "FOUND property={} stage={} clause={} signature={:?} replay={}",
                self.property, self.stage, f.clause, f.signature, path
            );
            println!("  detail: {}", f.detail);
            findings.push(
                J::obj()
                    .with("clause", J::s(&f.clause))
                    .with("signature", J::s(&f.signature))
                    .with("detail", J::s(&f.detail))
                    .with("replay", J::s(path)),
            );
        }
        let mut coverage = J::obj();
        for (k, v) in &self.counters {
            coverage.set(k, J::Int(*v));
        }
        for (k, v) in &self.extra {
            coverage.set(k, v.clone());
        }
        coverage.set("rule", J::s(&self.rule));
        coverage.set("samples", J::Arr(self.samples.clone()));
        coverage.set("exhaustive", J::Bool(self.exhaustive));
        if !self.caps_hit.is_empty() {
            coverage.set("caps_hit", J::strs(self.caps_hit.clone()));
        }
        let body = J::obj()
            .with("property", J::s(&self.property))
            .with("stage", J::s(&self.stage))
            .with(
                "tier",
                J::s(match tier() {
                    Tier::Quick => "quick",
                    Tier::Thorough => "thorough",
                }),
            )
            .with("complete", J::Bool(true))
            .with("coverage", coverage)
            .with("assumptions", J::strs(self.assumptions.clone()))
            .with("findings", J::Arr(findings))
            .with("suppressed_duplicate_findings", J::i(self.suppressed_findings))
            .with("wall_s", J::Float(self.started.elapsed().as_secs_f64()));
        let path = format!("{work_dir}/{}.json", self.stage);
        std::fs::write(&path, body.render()).expect("write stage file");
        println!(
            "STAGE-DONE property={} stage={} findings={} file={}",
            self.property,
            self.stage,
            self.findings.len(),
            path
        );
    }
}

/// Loads the `case` of a replay artefact if VERIF_REPLAY points at one for this property/stage.
pub fn load_replay(property: &str, stage: &str) -> Option<J> {
    let path = replay_path()?;
    let txt = std::fs::read_to_string(&path).unwrap_or_else(|e| panic!("read replay {path}: {e}"));
    let j = J::parse(&txt).unwrap_or_else(|e| panic!("parse replay {path}: {e}"));
    if j.get("property").and_then(J::as_str) != Some(property)
        || j.get("stage").and_then(J::as_str) != Some(stage)
    {
        return None;
    }
    Some(j.get("case").cloned().unwrap_or(J::Null))
}

/// Runs `f` under catch_unwind, silencing the default panic message; returns the panic text.
pub fn catch<R>(f: impl FnOnce() -> R + std::panic::UnwindSafe) -> Result<R, String> {
    match std::panic::catch_unwind(f) {
        Ok(r) => Ok(r),
        Err(e) => Err(panic_text(&e)),
    }
}

pub fn panic_text(e: &Box<dyn std::any::Any + Send>) -> String {
    if let Some(s) = e.downcast_ref::<&str>() {
        (*s).to_string()
    } else if let Some(s) = e.downcast_ref::<String>() {
        s.clone()
    } else {
        "non-string panic".to_string()
    }
}

/// Installs a panic hook that records the panic location into a thread-local instead of printing;
/// harnesses that expect panics (catch_unwind sweeps) call this once.
pub fn quiet_panics() {
    static ONCE: std::sync::Once = std::sync::Once::new();
    ONCE.call_once(|| {
        let default = std::panic::take_hook();
        std::panic::set_hook(Box::new(move |info| {
            let loc = info
                .location()
                .map(|l| format!("{}:{}", l.file(), l.line()))
                .unwrap_or_default();
            LAST_PANIC_LOCATION.with(|c| *c.borrow_mut() = loc);
            if QUIET.with(std::cell::Cell::get) == 0 {
                default(info);
            }
        }));
    });
}

thread_local! {
    pub static LAST_PANIC_LOCATION: std::cell::RefCell<String> = const { std::cell::RefCell::new(String::new()) };
    static QUIET: std::cell::Cell<u32> = const { std::cell::Cell::new(0) };
}

/// Like `catch` but with panic output suppressed on this thread while `f` runs; also returns the
/// source location of the panic.
pub fn catch_quiet<R>(f: impl FnOnce() -> R + std::panic::UnwindSafe) -> Result<R, (String, String)> {
    quiet_panics();
    QUIET.with(|q| q.set(q.get() + 1));
    let r = std::panic::catch_unwind(f);
    QUIET.with(|q| q.set(q.get() - 1));
    match r {
        Ok(r) => Ok(r),
        Err(e) => {
            let loc = LAST_PANIC_LOCATION.with(|c| c.borrow().clone());
            Err((panic_text(&e), loc))
        }
    }
}
