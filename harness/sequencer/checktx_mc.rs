// C17 (sequencer side) — CheckTx bytes never panic the service; an accepted transaction is the
// transaction that was sent. Every truncation and every single-node wire-tree mutation of valid
// signed transactions (several action kinds) is fed to the real `service::mempool::check_tx`
// against a real committed chain state and a fresh real mempool.
#![allow(clippy::all, clippy::pedantic, dead_code, unused_imports)]

use astria_core::{
    generated::astria::protocol::transaction::v1 as rawtx,
    protocol::transaction::v1::{
        Action,
        Transaction,
    },
    Protobuf as _,
};
use bytes::Bytes;
use prost::Message as _;
use sha2::Digest as _;

use super::{
    block_on,
    engine::{
        json::J,
        report::{
            self,
            catch_quiet,
            Finding,
            Report,
            Tier,
        },
        wire::{
            count_nodes,
            encode,
            mutants,
            parse,
        },
    },
    r1,
    sign_tx,
    tlevel::{
        lock,
        rollup_data,
        transfer,
        unlock,
        validator_update,
    },
    Chain,
    BR1,
    DAVE,
    W,
};
use crate::{
    service::mempool::{
        check_tx,
        CheckTxOutcome,
    },
    test_utils::{
        nria,
        ALICE,
        BOB,
        SUDO,
    },
};

#[test]
fn verif_c17_checktx() {
    report::quiet_panics();
    let mut rep = Report::new("C17", "checktx");
    let thorough = report::tier() == Tier::Thorough;
    let mut chain = block_on(async {
        let mut chain = Chain::new().await;
        chain.setup_bridges_and_fee_asset().await;
        chain
    });
    let n = || -> astria_core::primitive::v1::asset::Denom { nria().into() };
    let seeds: Vec<(&str, Bytes)> = block_on(async {
        vec![
            ("transfer", sign_tx(&ALICE, chain.nonce_of(&ALICE).await, vec![transfer(&BOB, 5, n(), n())]).unwrap()),
            (
                "bundle",
                sign_tx(&BOB, chain.nonce_of(&BOB).await, vec![transfer(&ALICE, 1, n(), n()), rollup_data(r1(), 3), lock(&BR1, 2)]).unwrap(),
            ),
            ("unlock", sign_tx(&W, chain.nonce_of(&W).await, vec![unlock(&BR1, &DAVE, 1, "e9")]).unwrap()),
            ("validator-update", sign_tx(&SUDO, chain.nonce_of(&SUDO).await, vec![validator_update(&DAVE, 3)]).unwrap()),
        ]
    });
    let snapshot = chain.fixture.storage().latest_snapshot();
    let metrics = chain.fixture.metrics();

    if let Some(case) = report::load_replay("C17", "checktx") {
        let bytes = Bytes::from(report::unhex(case.get("bytes").and_then(J::as_str).unwrap()));
        let mempool = crate::mempool::Mempool::new(metrics, 100, 100);
        match catch_quiet(std::panic::AssertUnwindSafe(|| block_on(check_tx(bytes, snapshot.clone(), &mempool, metrics)))) {
            Ok(_) => {}
            Err((msg, loc)) => rep.finding(Finding {
                clause: "no-panic".into(),
                signature: format!("check_tx panics at {loc}"),
                detail: msg,
                case,
            }),
        }
        rep.finish();
        return;
    }

    rep.rule(
        "for each of 4 valid signed transactions (transfer; bundle of transfer + rollup data + bridge lock; bridge unlock; validator update): \
         every truncation and every single-node mutation of the protobuf wire tree (same menu as stage decode) is passed to the real \
         service::mempool::check_tx with the committed chain state and a fresh real mempool; oracle: no panic; if the mempool accepts the \
         bytes, they decode to a transaction whose signature verifies and whose id is the hash of the bytes, and the mempool reports that id",
    );
    let (mut accepted, mut rejected) = (0u64, 0u64);
    for (name, valid) in &seeds {
        let tree = parse(valid, 0).expect("valid encoding parses");
        assert_eq!(encode(&tree), valid.to_vec());
        rep.add("wire_nodes", count_nodes(&tree));
        let mut inputs: Vec<(String, Vec<u8>)> = (0..valid.len()).map(|cut| (format!("truncate to {cut} bytes"), valid[..cut].to_vec())).collect();
        inputs.push(("unchanged".into(), valid.to_vec()));
        let singles = mutants(&tree, "");
        if thorough && *name == "transfer" {
            for (n1, m1) in &singles {
                for (n2, m2) in mutants(m1, "") {
                    inputs.push((format!("{n1} ; {n2}"), encode(&m2)));
                }
            }
        }
        inputs.extend(singles.into_iter().map(|(n, m)| (n, encode(&m))));
        for (what, bytes) in inputs {
            rep.add("evaluations", 1);
            let mempool = crate::mempool::Mempool::new(metrics, 100, 100);
            let input = Bytes::from(bytes.clone());
            let outcome = catch_quiet(std::panic::AssertUnwindSafe(|| block_on(check_tx(input.clone(), snapshot.clone(), &mempool, metrics))));
            let fail = |rep: &mut Report, clause: &str, signature: String, detail: String| {
                rep.finding(Finding {
                    clause: clause.into(),
                    signature: format!("{name}: {signature}"),
                    detail: format!("{name} mutated by [{what}]: {detail}"),
                    case: J::obj().with("seed", J::s(*name)).with("mutation", J::s(what.clone())).with("bytes", J::s(report::hex(&bytes))),
                });
            };
            match outcome {
                Err((msg, loc)) => fail(&mut rep, "no-panic", format!("check_tx panics at {loc}"), msg),
                Ok(CheckTxOutcome::AddedToPending(id) | CheckTxOutcome::AddedToParked(id)) => {
                    accepted += 1;
                    rep.add("distinct_nontrivial", 1);
                    let want_id: [u8; 32] = sha2::Sha256::digest(&bytes).into();
                    if id.get() != want_id {
                        fail(&mut rep, "accepted-consistent", "accepted under an id that is not the hash of the bytes".into(), format!("{id}"));
                    }
                    match rawtx::Transaction::decode(&*bytes).ok().and_then(|r| Transaction::try_from_raw(r).ok()) {
                        None => fail(&mut rep, "accepted-consistent", "mempool accepted bytes that are not a valid signed transaction".into(), String::new()),
                        Some(_) => {}
                    }
                    if block_on(mempool.transaction_status(&id)).is_none() {
                        fail(&mut rep, "accepted-consistent", "accepted transaction unknown to the mempool".into(), String::new());
                    }
                    if rep.wants_sample() {
                        rep.sample(J::obj().with("seed", J::s(*name)).with("mutation", J::s(what.clone())).with("verdict", J::s("accepted")));
                    }
                }
                Ok(_) => {
                    rejected += 1;
                    rep.add("distinct_nontrivial", 1);
                }
            }
        }
    }
    println!("NOTE C17 checktx: accepted {accepted}, rejected {rejected}");
    rep.add("accepted", accepted);
    rep.add("rejected", rejected);
    rep.finish();
}
