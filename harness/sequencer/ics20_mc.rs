// stub
