// C13 — Mempool keeps nonce order and never duplicates or silently loses a transaction.
// Explicit-state search over the real `Mempool` (child module of `crate::mempool`, so the inner
// containers are readable): every sequence of inserts (with current / stale chain views),
// invalid-removals, chain changes, maintenance runs and clock advances up to a depth. A state is
// the event history; each transition replays it on a fresh mempool under a paused tokio clock.
#![allow(clippy::all, clippy::pedantic, dead_code, unused_imports)]

use std::{
    collections::{
        BTreeMap,
        BTreeSet,
        HashMap,
    },
    sync::Arc,
};

use astria_core::{
    crypto::SigningKey,
    primitive::v1::{
        asset::IbcPrefixed,
        TransactionId,
    },
    protocol::{
        fees::v1::FeeComponents,
        transaction::v1::{
            action::{
                FeeChange,
                Transfer,
            },
            Action,
        },
    },
};
use cnidarium::{
    Snapshot,
    StateDelta,
};
use tendermint::abci::types::ExecTxResult;

use super::{
    transactions_container::{
        TransactionsContainer as _,
        TransactionsForAccount as _,
    },
    Mempool,
    RemovalReason,
    TransactionStatus,
    TX_TTL,
};
#[path = "/verif/engine/mod.rs"]
mod engine;

use engine::{
    explore::{
        self,
        Config,
        Model,
        Step,
        Violation,
    },
    json::J,
    report::{
        self,
        Finding,
        Report,
        Tier,
    },
};

use crate::{
    accounts::{
        StateReadExt as _,
        StateWriteExt as _,
    },
    checked_transaction::CheckedTransaction,
    fees::StateWriteExt as _,
    test_utils::{
        astria_address,
        nria,
        Fixture,
        ALICE,
        BOB,
        CAROL,
        SUDO,
    },
};

fn addr(k: &SigningKey) -> astria_core::primitive::v1::Address {
    astria_address(&k.address_bytes())
}

fn sign_tx(signer: &SigningKey, nonce: u32, actions: Vec<Action>) -> Option<bytes::Bytes> {
    use astria_core::Protobuf as _;
    use prost::Message as _;
    let body = astria_core::protocol::transaction::v1::TransactionBody::builder()
        .nonce(nonce)
        .chain_id("test".to_string())
        .actions(actions)
        .try_build()
        .ok()?;
    Some(bytes::Bytes::from(body.sign(signer).into_raw().encode_to_vec()))
}

const HIGH: u128 = 1_000_000;
const EXPENSIVE: u128 = 600_000;

#[derive(Clone, Copy, Debug, PartialEq, Eq, Hash, PartialOrd, Ord)]
enum Acct {
    Alice,
    Sudo,
}

#[derive(Clone, Copy, Debug, PartialEq, Eq, Hash, PartialOrd, Ord)]
enum Kind {
    Cheap,
    Expensive,
    /// sudo action group (a FeeChange), only SUDO can build it
    SudoGroup,
    /// transfer of a second asset (fee paid in the native one): costs in two assets
    OtherAsset,
}

fn other_asset() -> astria_core::primitive::v1::asset::Denom {
    "other".parse().unwrap()
}

#[derive(Clone, Copy, Debug, PartialEq, Eq, Hash, PartialOrd, Ord)]
struct TxSpec {
    acct: Acct,
    nonce: u32,
    kind: Kind,
}

#[derive(Clone, Copy, Debug, PartialEq, Eq, Hash)]
enum Ev {
    /// insert with the chain view that is current (`true`) or the one of the last maintenance
    Insert(usize, bool),
    RemoveInvalid(usize),
    /// the chain executes the account's next nonce (the pending tx with that nonce, if any, is
    /// reported as included at the next maintenance)
    IncNonce(Acct),
    SetBalance(Acct, u128),
    /// Alice's balance of the second asset
    SetOther(u128),
    RaiseTransferFee,
    Maintain,
    AdvancePastTtl,
}

#[derive(Clone, Debug, PartialEq, Eq, Hash)]
struct ChainView {
    nonce: BTreeMap<Acct, u32>,
    balance: BTreeMap<Acct, u128>,
    /// Alice's balance of the second asset
    other: u128,
    fee_raised: bool,
}

impl ChainView {
    fn initial() -> Self {
        Self {
            nonce: [(Acct::Alice, 0), (Acct::Sudo, 0)].into_iter().collect(),
            balance: [(Acct::Alice, HIGH), (Acct::Sudo, HIGH)].into_iter().collect(),
            other: HIGH,
            fee_raised: false,
        }
    }

    fn balances_of(&self, a: Acct) -> HashMap<IbcPrefixed, u128> {
        let mut m: HashMap<IbcPrefixed, u128> = [(nria().to_ibc_prefixed(), self.balance[&a])].into_iter().collect();
        if a == Acct::Alice {
            m.insert(other_asset().to_ibc_prefixed(), self.other);
        }
        m
    }
}

struct Pool {
    txs: Vec<(TxSpec, Arc<CheckedTransaction>)>,
    /// costs[fee_raised as usize][tx index], computed once by the real `total_costs`
    costs: [Vec<HashMap<IbcPrefixed, u128>>; 2],
    base: Snapshot,
    metrics: &'static crate::Metrics,
}

fn key_of(a: Acct) -> &'static SigningKey {
    match a {
        Acct::Alice => &ALICE,
        Acct::Sudo => &SUDO,
    }
}

impl Pool {
    async fn build() -> Self {
        let fixture = Fixture::default_initialized().await;
        let mut specs = Vec::new();
        for nonce in 0..3u32 {
            for kind in [Kind::Cheap, Kind::Expensive] {
                specs.push(TxSpec {
                    acct: Acct::Alice,
                    nonce,
                    kind,
                });
            }
        }
        for nonce in 0..2u32 {
            specs.push(TxSpec {
                acct: Acct::Alice,
                nonce,
                kind: Kind::OtherAsset,
            });
        }
        for nonce in 0..2u32 {
            for kind in [Kind::Cheap, Kind::SudoGroup] {
                specs.push(TxSpec {
                    acct: Acct::Sudo,
                    nonce,
                    kind,
                });
            }
        }
        let mut txs = Vec::new();
        for s in specs {
            let action = match s.kind {
                Kind::Cheap => Action::Transfer(Transfer {
                    to: addr(&BOB),
                    amount: 1 + u128::from(s.nonce),
                    asset: nria().into(),
                    fee_asset: nria().into(),
                }),
                Kind::Expensive => Action::Transfer(Transfer {
                    to: addr(&CAROL),
                    amount: EXPENSIVE + u128::from(s.nonce),
                    asset: nria().into(),
                    fee_asset: nria().into(),
                }),
                Kind::OtherAsset => Action::Transfer(Transfer {
                    to: addr(&CAROL),
                    amount: EXPENSIVE + u128::from(s.nonce),
                    asset: other_asset(),
                    fee_asset: nria().into(),
                }),
                Kind::SudoGroup => Action::FeeChange(FeeChange::BridgeLock(FeeComponents::new(5 + u128::from(s.nonce), 1))),
            };
            let bytes = sign_tx(key_of(s.acct), s.nonce, vec![action]).unwrap();
            let checked = CheckedTransaction::new(bytes, fixture.state()).await.expect("constructible");
            txs.push((s, Arc::new(checked)));
        }
        let mut pool = Self {
            txs,
            costs: [Vec::new(), Vec::new()],
            base: fixture.storage().latest_snapshot(),
            metrics: fixture.metrics(),
        };
        for raised in [false, true] {
            let mut view = ChainView::initial();
            view.fee_raised = raised;
            let state = pool.state_for(&view);
            let mut v = Vec::new();
            for (_, tx) in &pool.txs {
                v.push(tx.total_costs(&state).await.expect("total_costs"));
            }
            pool.costs[usize::from(raised)] = v;
        }
        pool
    }

    fn state_for(&self, view: &ChainView) -> StateDelta<Snapshot> {
        let mut s = StateDelta::new(self.base.clone());
        for (a, n) in &view.nonce {
            s.put_account_nonce(&key_of(*a).address_bytes(), *n).unwrap();
        }
        for (a, b) in &view.balance {
            s.put_account_balance(&key_of(*a).address_bytes(), &nria(), *b).unwrap();
        }
        s.put_account_balance(&key_of(Acct::Alice).address_bytes(), &other_asset(), view.other).unwrap();
        if view.fee_raised {
            s.put_fees(FeeComponents::<Transfer>::new(500_000, 0)).unwrap();
        }
        s
    }
}

#[derive(Clone, Debug, PartialEq, Eq, Hash)]
struct Observed {
    /// acct -> [(nonce, tx index)]
    pending: BTreeMap<Acct, Vec<(u32, usize)>>,
    parked: BTreeMap<Acct, Vec<(u32, usize)>>,
    /// tx index -> status label for every accepted tx
    statuses: BTreeMap<usize, String>,
    builder_queue: Vec<usize>,
    len: usize,
    chain: ChainView,
    last_maintained: ChainView,
    expired_clock: bool,
}

struct St {
    hist: Vec<Ev>,
    obs: Observed,
}

struct MempoolModel {
    pool: Pool,
    parked_max: usize,
    alphabet: Vec<Ev>,
}

struct RunResult {
    obs: Observed,
    violation: Option<Violation>,
}

impl MempoolModel {
    fn idx_of(&self, id: &TransactionId) -> usize {
        self.pool.txs.iter().position(|(_, t)| t.id() == id).expect("known tx")
    }

    /// Replays `hist` on a fresh mempool under a paused clock; evaluates the oracle after the last
    /// event.
    fn run(&self, hist: &[Ev]) -> Result<RunResult, String> {
        PAUSED_RT.with(|rt| rt.block_on(async {
            let mempool = Mempool::new(self.pool.metrics, self.parked_max, 100);
            let mut chain = ChainView::initial();
            let mut last_maintained = chain.clone();
            let mut accepted: BTreeSet<usize> = BTreeSet::new();
            let mut included_pending: HashMap<TransactionId, Arc<ExecTxResult>> = HashMap::new();
            let mut expired_clock = false;
            let mut in_sync = true; // a maintenance has run since the last chain change
            let mut height = 10u64;
            let mut last_was_maintain = false;
            let mut last_insert_current: Option<usize> = None;
            let mut shown_nonce: BTreeMap<Acct, u32> = BTreeMap::new();
            // the highest account nonce ever shown (an insert may carry an older view than an earlier one)
            let mut max_shown_nonce: BTreeMap<Acct, u32> = BTreeMap::new();
            for (n, ev) in hist.iter().enumerate() {
                // distinct first-seen instants, so queue order never depends on hash-map order
                tokio::time::advance(std::time::Duration::from_millis(1)).await;
                last_was_maintain = false;
                last_insert_current = None;
                match ev {
                    Ev::Insert(i, current) => {
                        let (spec, tx) = &self.pool.txs[*i];
                        let view = if *current { &chain } else { &last_maintained };
                        // CheckTx only inserts a transaction the mempool does not know (service::mempool::check_tx)
                        if mempool.transaction_status(tx.id()).await.is_some() {
                            continue;
                        }
                        let nonce = view.nonce[&spec.acct];
                        let balances: HashMap<IbcPrefixed, u128> = view.balances_of(spec.acct);
                        let costs = self.pool.costs[usize::from(view.fee_raised)][*i].clone();
                        let r = mempool.insert(tx.clone(), nonce, &balances, costs).await;
                        shown_nonce.insert(spec.acct, nonce);
                        let m = max_shown_nonce.entry(spec.acct).or_insert(0);
                        *m = (*m).max(nonce);
                        if r.is_ok() {
                            accepted.insert(*i);
                            if *current && in_sync {
                                last_insert_current = Some(*i);
                            }
                        }
                    }
                    Ev::RemoveInvalid(i) => {
                        let (_, tx) = &self.pool.txs[*i];
                        mempool.remove_tx_invalid(tx.clone(), RemovalReason::FailedExecution("verif".into())).await;
                    }
                    Ev::IncNonce(a) => {
                        let cur = chain.nonce[a];
                        // the pending transaction with this nonce (if any) is what the block executed
                        let inner = mempool.inner.read().await;
                        if let Some(acct) = inner.pending.txs().get(&key_of(*a).address_bytes()) {
                            if let Some(ttx) = acct.txs().get(&cur) {
                                included_pending.insert(*ttx.id(), Arc::new(ExecTxResult::default()));
                            }
                        }
                        drop(inner);
                        chain.nonce.insert(*a, cur + 1);
                        in_sync = false;
                    }
                    Ev::SetBalance(a, b) => {
                        chain.balance.insert(*a, *b);
                        in_sync = false;
                    }
                    Ev::SetOther(b) => {
                        chain.other = *b;
                        in_sync = false;
                    }
                    Ev::RaiseTransferFee => {
                        chain.fee_raised = true;
                        in_sync = false;
                    }
                    Ev::Maintain => {
                        let state = self.pool.state_for(&chain);
                        let recost = chain.fee_raised != last_maintained.fee_raised;
                        height += 1;
                        mempool.run_maintenance(&state, recost, std::mem::take(&mut included_pending), height).await;
                        last_maintained = chain.clone();
                        shown_nonce = chain.nonce.clone();
                        for (a, n) in &chain.nonce {
                            let m = max_shown_nonce.entry(*a).or_insert(0);
                            *m = (*m).max(*n);
                        }
                        in_sync = true;
                        last_was_maintain = true;
                    }
                    Ev::AdvancePastTtl => {
                        tokio::time::advance(TX_TTL + std::time::Duration::from_secs(1)).await;
                        expired_clock = true;
                    }
                }
                let _ = n;
            }
            // ------------------------------------------------------------------ observe
            let inner = mempool.inner.read().await;
            let mut pending: BTreeMap<Acct, Vec<(u32, usize)>> = BTreeMap::new();
            let mut parked: BTreeMap<Acct, Vec<(u32, usize)>> = BTreeMap::new();
            let mut pending_ids = BTreeSet::new();
            let mut parked_ids = BTreeSet::new();
            for a in [Acct::Alice, Acct::Sudo] {
                if let Some(acct) = inner.pending.txs().get(&key_of(a).address_bytes()) {
                    for (nonce, ttx) in acct.txs() {
                        pending.entry(a).or_default().push((*nonce, self.idx_of(ttx.id())));
                        pending_ids.insert(*ttx.id());
                    }
                }
                if let Some(acct) = inner.parked.txs().get(&key_of(a).address_bytes()) {
                    for (nonce, ttx) in acct.txs() {
                        parked.entry(a).or_default().push((*nonce, self.idx_of(ttx.id())));
                        parked_ids.insert(*ttx.id());
                    }
                }
            }
            let contained: BTreeSet<TransactionId> = inner.contained_txs.iter().copied().collect();
            let parked_total = inner.parked.len();
            drop(inner);
            let len = mempool.len().await;
            let mut statuses = BTreeMap::new();
            for i in &accepted {
                let id = self.pool.txs[*i].1.id();
                let label = match mempool.transaction_status(id).await {
                    None => "LOST".to_string(),
                    Some(TransactionStatus::Pending) => "pending".into(),
                    Some(TransactionStatus::Parked) => "parked".into(),
                    Some(TransactionStatus::Removed(r)) => match r {
                        RemovalReason::Expired => "removed:expired".into(),
                        RemovalReason::NonceStale => "removed:stale".into(),
                        RemovalReason::LowerNonceInvalidated => "removed:lower-nonce-invalidated".into(),
                        RemovalReason::FailedExecution(_) => "removed:failed-execution".into(),
                        RemovalReason::InternalError => "removed:internal-error".into(),
                        RemovalReason::IncludedInBlock {
                            ..
                        } => "removed:included".into(),
                    },
                };
                statuses.insert(*i, label);
            }
            let builder_queue: Vec<usize> =
                mempool.builder_queue().await.iter().map(|t| self.idx_of(t.id())).collect();
            let obs = Observed {
                pending: pending.clone(),
                parked: parked.clone(),
                statuses: statuses.clone(),
                builder_queue: builder_queue.clone(),
                len,
                chain: chain.clone(),
                last_maintained: last_maintained.clone(),
                expired_clock,
            };
            // ------------------------------------------------------------------ oracle
            let viol = |clause: &str, signature: &str, detail: String| {
                Some(Violation {
                    clause: clause.to_string(),
                    signature: signature.to_string(),
                    detail,
                })
            };
            let mut violation = None;
            // exactly one place
            if !pending_ids.is_disjoint(&parked_ids) {
                violation = viol("one-place", "transaction both pending and parked", format!("{obs:?}"));
            }
            let union: BTreeSet<TransactionId> = pending_ids.union(&parked_ids).copied().collect();
            if violation.is_none() && union != contained {
                violation = viol(
                    "one-place",
                    "tracked set differs from pending + parked",
                    format!("tracked {} ids, pending+parked {} ids; {obs:?}", contained.len(), union.len()),
                );
            }
            if violation.is_none() && len != union.len() {
                violation = viol("one-place", "len() differs from pending + parked", format!("len {len}; {obs:?}"));
            }
            // never silently lost
            if violation.is_none() {
                if let Some((i, _)) = statuses.iter().find(|(_, s)| *s == "LOST") {
                    violation = viol(
                        "no-silent-loss",
                        "accepted transaction has no status",
                        format!(
                            "transaction {:?} was accepted, is in neither queue and is not reported as removed; {obs:?}",
                            self.pool.txs[*i].0
                        ),
                    );
                }
            }
            // consecutive pending nonces
            if violation.is_none() {
                for (a, list) in &pending {
                    let nonces: Vec<u32> = list.iter().map(|x| x.0).collect();
                    if nonces.windows(2).all(|w| w[1] == w[0] + 1) {
                        continue;
                    }
                    // is the gap explained by entries below the account nonce shown most recently
                    // (stale until the next maintenance) followed by a consecutive run from it?
                    let shown = shown_nonce.get(a).copied().unwrap_or(0);
                    let fresh: Vec<u32> = nonces.iter().copied().filter(|n| *n >= shown).collect();
                    let stale_only_gap = fresh.windows(2).all(|w| w[1] == w[0] + 1) && fresh.first().map_or(true, |f| *f == shown);
                    // or by an insert that carried an *older* view than one shown before (CheckTx
                    // read its snapshot before a commit and inserted after a later CheckTx): entries
                    // from the highest nonce ever shown are consecutive, the rest lie below it
                    let max_shown = max_shown_nonce.get(a).copied().unwrap_or(0);
                    let above: Vec<u32> = nonces.iter().copied().filter(|n| *n >= max_shown).collect();
                    let older_view_gap = shown < max_shown
                        && above.windows(2).all(|w| w[1] == w[0] + 1)
                        && above.first().map_or(true, |f| *f == max_shown);
                    violation = viol(
                        "pending-consecutive",
                        if stale_only_gap {
                            "pending keeps nonces below a newly shown account nonce until the next maintenance"
                        } else if older_view_gap {
                            "an insert carrying an older account nonce than already shown is accepted below the pending entries until the next maintenance"
                        } else {
                            "gap in pending nonces"
                        },
                        format!("account {a:?} was last shown nonce {shown}; pending nonces {nonces:?}"),
                    );
                }
            }
            // builder queue: per (account, group) ascending nonce, and only pending txs
            if violation.is_none() {
                let mut last: BTreeMap<(Acct, bool), u32> = BTreeMap::new();
                for i in &builder_queue {
                    let s = self.pool.txs[*i].0;
                    let key = (s.acct, s.kind == Kind::SudoGroup);
                    if let Some(prev) = last.get(&key) {
                        if *prev > s.nonce {
                            violation = viol(
                                "builder-order",
                                "higher nonce before lower nonce of the same group",
                                format!("builder queue {:?}", builder_queue.iter().map(|i| self.pool.txs[*i].0).collect::<Vec<_>>()),
                            );
                        }
                    }
                    last.insert(key, s.nonce);
                }
                let in_pending: BTreeSet<usize> = pending.values().flatten().map(|x| x.1).collect();
                let in_queue: BTreeSet<usize> = builder_queue.iter().copied().collect();
                if violation.is_none() && in_pending != in_queue {
                    violation = viol("builder-order", "builder queue differs from pending set", format!("{obs:?}"));
                }
            }
            // parked total limit
            if violation.is_none() && parked_total > self.parked_max {
                violation = viol("parked-limit", "parked total above the limit", format!("{parked_total} parked > {}", self.parked_max));
            }
            // authoritative view: right after a maintenance
            if violation.is_none() && last_was_maintain {
                for a in [Acct::Alice, Acct::Sudo] {
                    let n = chain.nonce[&a];
                    let stale = pending
                        .get(&a)
                        .into_iter()
                        .chain(parked.get(&a))
                        .flatten()
                        .find(|(nonce, _)| *nonce < n);
                    if let Some((nonce, _)) = stale {
                        violation = viol(
                            "maintenance",
                            "used nonce remains after maintenance",
                            format!("account {a:?} chain nonce {n}, transaction with nonce {nonce} still held; {obs:?}"),
                        );
                        break;
                    }
                    if let Some(list) = pending.get(&a) {
                        if let Some((first, _)) = list.first() {
                            if *first != n {
                                violation = viol(
                                    "maintenance",
                                    "pending does not start at the chain nonce",
                                    format!("account {a:?} chain nonce {n}, pending starts at {first}"),
                                );
                                break;
                            }
                        }
                        let mut totals: BTreeMap<IbcPrefixed, u128> = BTreeMap::new();
                        for (_, i) in list {
                            let costs = &self.pool.costs[usize::from(chain.fee_raised)][*i];
                            for (asset, c) in costs {
                                let t = totals.entry(*asset).or_insert(0);
                                *t = t.saturating_add(*c);
                            }
                        }
                        let have = chain.balances_of(a);
                        if let Some((asset, total)) =
                            totals.iter().find(|(asset, t)| **t > have.get(*asset).copied().unwrap_or(0))
                        {
                            violation = viol(
                                "maintenance",
                                "pending not affordable from the shown balance",
                                format!(
                                    "account {a:?} balances {:?} but pending costs {total} of {asset}; {obs:?}",
                                    have.iter().map(|(k, v)| (k.to_string(), *v)).collect::<BTreeMap<_, _>>()
                                ),
                            );
                            break;
                        }
                    }
                }
            }
            Ok(RunResult {
                obs,
                violation,
            })
        }))
    }
}

thread_local! {
    // One paused-clock runtime per worker; instants are only ever compared within one run.
    static PAUSED_RT: tokio::runtime::Runtime = tokio::runtime::Builder::new_current_thread()
        .enable_all()
        .start_paused(true)
        .build()
        .unwrap();
}

impl Model for MempoolModel {
    type Ev = Ev;
    type St = St;

    fn init(&self) -> St {
        St {
            hist: Vec::new(),
            obs: self.run(&[]).expect("empty run").obs,
        }
    }

    fn enabled(&self, st: &St, _hist: &[Ev]) -> Vec<Ev> {
        self.alphabet
            .iter()
            .copied()
            .filter(|ev| match ev {
                // a stale view only differs from the current one when the chain moved on
                Ev::Insert(_, false) => st.obs.chain != st.obs.last_maintained,
                Ev::IncNonce(a) => st.obs.chain.nonce[a] < 2,
                Ev::SetBalance(a, b) => st.obs.chain.balance[a] != *b,
                Ev::SetOther(b) => st.obs.chain.other != *b,
                Ev::RaiseTransferFee => !st.obs.chain.fee_raised,
                Ev::AdvancePastTtl => !st.obs.expired_clock,
                _ => true,
            })
            .collect()
    }

    fn step(&self, st: &St, _hist: &[Ev], ev: &Ev) -> Step<St> {
        let mut hist = st.hist.clone();
        hist.push(*ev);
        match self.run(&hist) {
            Err(e) => Step::Violated(Violation {
                clause: "harness".into(),
                signature: "replay failed".into(),
                detail: e,
            }),
            Ok(r) => match r.violation {
                Some(v) if v.signature.starts_with("pending keeps nonces below") => Step::Flagged(
                    St {
                        hist,
                        obs: r.obs,
                    },
                    v,
                ),
                Some(v) => Step::Violated(v),
                None => Step::Next(St {
                    hist,
                    obs: r.obs,
                }),
            },
        }
    }

    fn canon(&self, st: &St) -> u128 {
        // The observable structure determines the mempool's future behaviour except for the
        // first-seen instants, which only order the builder queue (part of the observation) and
        // decide expiry (covered by `expired_clock`).
        report::h128(&st.obs)
    }

    fn outcome(&self, st: &St) -> u64 {
        let mut labels: Vec<&String> = st.obs.statuses.values().collect();
        labels.sort();
        labels.dedup();
        report::h64(&labels)
    }
}

fn alphabet(pool: &Pool, thorough: bool) -> Vec<Ev> {
    let mut v = Vec::new();
    for i in 0..pool.txs.len() {
        v.push(Ev::Insert(i, true));
    }
    v.push(Ev::Maintain);
    for a in [Acct::Alice, Acct::Sudo] {
        v.push(Ev::IncNonce(a));
    }
    v.push(Ev::SetBalance(Acct::Alice, EXPENSIVE + 100));
    v.push(Ev::SetBalance(Acct::Alice, 0));
    v.push(Ev::SetBalance(Acct::Alice, HIGH));
    v.push(Ev::SetOther(0));
    v.push(Ev::SetOther(HIGH));
    for i in 0..pool.txs.len() {
        v.push(Ev::RemoveInvalid(i));
    }
    v.push(Ev::RaiseTransferFee);
    v.push(Ev::AdvancePastTtl);
    // inserts that carry the chain view of before the last change (CheckTx reads its snapshot before
    // it takes the mempool lock)
    let _ = thorough;
    for i in 0..pool.txs.len() {
        v.push(Ev::Insert(i, false));
    }
    v
}

fn ev_json(m: &MempoolModel, ev: &Ev) -> J {
    let t = |i: &usize| {
        let s = m.pool.txs[*i].0;
        format!("{:?}#{}:{:?}", s.acct, s.nonce, s.kind)
    };
    J::s(match ev {
        Ev::Insert(i, cur) => format!("insert {} view={}", t(i), if *cur { "current" } else { "stale" }),
        Ev::RemoveInvalid(i) => format!("remove_invalid {}", t(i)),
        Ev::IncNonce(a) => format!("inc_nonce {a:?}"),
        Ev::SetBalance(a, b) => format!("set_balance {a:?} {b}"),
        Ev::SetOther(b) => format!("set_other_asset_balance Alice {b}"),
        Ev::RaiseTransferFee => "raise_transfer_fee".into(),
        Ev::Maintain => "maintain".into(),
        Ev::AdvancePastTtl => "advance_past_ttl".into(),
    })
}

fn ev_parse(m: &MempoolModel, s: &str) -> Ev {
    let all = alphabet(&m.pool, true);
    *all.iter().find(|e| ev_json(m, e).as_str() == Some(s)).unwrap_or_else(|| panic!("unknown event {s}"))
}

#[test]
fn verif_c13() {
    let mut rep = Report::new("C13", "mempool");
    let thorough = report::tier() == Tier::Thorough;
    let pool = tokio::runtime::Builder::new_current_thread().enable_all().build().unwrap().block_on(Pool::build());
    let alphabet_all = alphabet(&pool, thorough);
    let mut model = MempoolModel {
        pool,
        parked_max: 100,
        alphabet: alphabet_all,
    };
    if let Some(case) = report::load_replay("C13", "mempool") {
        model.parked_max = case.get("parked_max").and_then(J::as_int).unwrap() as usize;
        let hist: Vec<Ev> =
            case.get("history").and_then(J::as_arr).unwrap().iter().map(|j| ev_parse(&model, j.as_str().unwrap())).collect();
        let a = explore::replay(&model, &hist);
        let b = explore::replay(&model, &hist);
        assert_eq!(format!("{a:?}"), format!("{b:?}"), "uncontrolled nondeterminism");
        println!("REPLAY {a:?}");
        if let Ok(Some(v)) = a {
            rep.finding(Finding {
                clause: v.clause,
                signature: v.signature,
                detail: v.detail,
                case,
            });
        }
        rep.finish();
        return;
    }
    let depth = if thorough { 6 } else { 4 };
    rep.rule(&format!(
        "BFS over the real Mempool: every sequence of <= {depth} events from {{insert(12 transactions of 2 accounts, \
         nonces 0..2, cheap / expensive / second-asset / sudo-group; current{} chain view), remove_tx_invalid(each), chain nonce +1, \
         balance to {{0, one expensive tx, high}}, second-asset balance to {{0, high}}, transfer fee raised (recost), run_maintenance, clock past TTL}} x \
         parked_max in {{1, 2, 100}}; each state is the history replayed on a fresh mempool under a paused clock; oracle \
         on the inner containers and the public API: one place only, accepted => status known, consecutive pending nonces, \
         builder order, parked limit, and after maintenance: no used nonce, pending starts at the chain nonce and is \
         affordable",
        " and stale"
    ));
    let mut outcomes = 0;
    for parked_max in [1usize, 2, 100] {
        model.parked_max = parked_max;
        let out = explore::explore(
            &model,
            &Config {
                max_depth: depth,
                workers: report::workers(),
                time_cap: std::time::Duration::from_secs(if thorough { 2400 } else { 200 }),
                ..Config::default()
            },
        );
        println!(
            "NOTE C13 parked_max={parked_max} depth={depth}: states={} transitions={} outcomes={} per_depth={:?} violations={}",
            out.states,
            out.transitions,
            out.distinct_outcomes,
            out.per_depth_states,
            out.violations.len()
        );
        rep.add("states", out.states);
        rep.add("transitions", out.transitions);
        rep.add("traces_validated_against_impl", out.transitions);
        outcomes = outcomes.max(out.distinct_outcomes);
        if let Some(cap) = &out.cap_hit {
            rep.cap_hit(cap);
        }
        for v in &out.violations {
            let a = explore::replay(&model, &v.history);
            let b = explore::replay(&model, &v.history);
            assert_eq!(format!("{a:?}"), format!("{b:?}"), "uncontrolled nondeterminism");
            rep.finding(Finding {
                clause: v.violation.clause.clone(),
                signature: v.violation.signature.clone(),
                detail: format!(
                    "parked_max={parked_max}: {} | history {:?}",
                    v.violation.detail,
                    v.history.iter().map(|e| ev_json(&model, e).render()).collect::<Vec<_>>()
                ),
                case: J::obj()
                    .with("parked_max", J::i(parked_max))
                    .with("history", J::arr(v.history.iter().map(|e| ev_json(&model, e)))),
            });
        }
        for h in out.sample_histories.iter().take(2) {
            rep.sample(J::obj().with("parked_max", J::i(parked_max)).with("history", J::arr(h.iter().map(|e| ev_json(&model, e)))));
        }
    }
    rep.add("distinct_outcomes", outcomes);
    rep.set_extra("depth", J::i(depth));
    rep.assume("first-seen instants are made distinct (1 ms apart) so builder-queue order never depends on HashMap iteration order");
    rep.assume("per-account parked limit (15) is outside the nonce alphabet and not exercised");
    rep.finish();
}
