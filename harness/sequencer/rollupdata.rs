// C07 — Rollup data is complete, ordered and provable from block to rollup (sequencer stage).
// Every block shape over three rollups (payload lists, deposits, bundle packaging) is produced by
// the real CheckTx -> PrepareProposal -> FinalizeBlock -> Commit, then read back through the real
// gRPC `SequencerServer::{get_sequencer_block, get_filtered_sequencer_block}` (every rollup-id
// subset), decoded with the public client-side types, split for Celestia, compared with a
// reference built from the transactions, and tampered with in every single-element way.
#![allow(clippy::all, clippy::pedantic, dead_code, unused_imports)]

use std::{
    collections::{
        BTreeMap,
        BTreeSet,
    },
    sync::Arc,
};

use astria_core::{
    crypto::SigningKey,
    generated::astria::sequencerblock::v1::{
        self as raw,
        sequencer_service_server::SequencerService as _,
        GetFilteredSequencerBlockRequest,
        GetSequencerBlockRequest,
    },
    primitive::v1::RollupId,
    protocol::transaction::v1::{
        action::RollupDataSubmission,
        Action,
        Transaction,
    },
    sequencerblock::v1::{
        block::{
            FilteredSequencerBlock,
            RollupData,
        },
        SequencerBlock,
        SubmittedMetadata,
        SubmittedRollupData,
    },
    Protobuf as _,
};
use bytes::Bytes;
use prost::Message as _;
use sha2::{
    Digest as _,
    Sha256,
};

use super::{
    addr,
    block_on,
    engine::{
        json::J,
        report::{
            self,
            Finding,
            Report,
            Tier,
        },
    },
    r1,
    r2,
    r3,
    sign_tx,
    tlevel::lock,
    Chain,
    BR1,
    BR2,
    DAVE,
    EVE,
    W,
};
use crate::{
    grpc::sequencer::SequencerServer,
    test_utils::{
        nria,
        ALICE,
        BOB,
        CAROL,
    },
};

fn r4() -> RollupId {
    RollupId::new([0xa4; 32])
}

// empty payloads are refused at transaction construction; a single zero byte is the smallest
const PAYLOAD_LISTS: &[&[&[u8]]] = &[&[], &[b"\0"], &[b"a"], &[b"a", b"a"], &[b"a", b"b"]];

#[derive(Clone, Debug)]
struct Shape {
    /// index into PAYLOAD_LISTS for r1, r2, r3
    lists: [usize; 3],
    /// 0 none, 1 lock->BR1 (r1), 2 lock->BR1 + lock->BR2 (r2), 3 two locks->BR1
    deposits: usize,
    /// true: everything in one bundle signed by ALICE; false: one transaction per item, signers rotate
    bundled: bool,
}

impl Shape {
    fn json(&self) -> J {
        J::obj()
            .with("lists", J::arr(self.lists.iter().map(|l| J::i(*l))))
            .with("deposits", J::i(self.deposits))
            .with("bundled", J::Bool(self.bundled))
    }

    fn from_json(j: &J) -> Shape {
        let l: Vec<usize> = j.get("lists").and_then(J::as_arr).unwrap().iter().map(|x| x.as_int().unwrap() as usize).collect();
        Shape {
            lists: [l[0], l[1], l[2]],
            deposits: j.get("deposits").and_then(J::as_int).unwrap() as usize,
            bundled: matches!(j.get("bundled"), Some(J::Bool(true))),
        }
    }

    /// Items in block order: payloads interleaved round-robin across rollups, then the locks.
    fn actions(&self) -> Vec<Action> {
        let rollups = [r1(), r2(), r3()];
        let mut out = Vec::new();
        let longest = self.lists.iter().map(|l| PAYLOAD_LISTS[*l].len()).max().unwrap_or(0);
        for k in 0..longest {
            // reverse rollup order on odd rounds: block order is not rollup-id order
            let order: Vec<usize> = if k % 2 == 0 { vec![2, 0, 1] } else { vec![1, 2, 0] };
            for r in order {
                if let Some(p) = PAYLOAD_LISTS[self.lists[r]].get(k) {
                    out.push(Action::RollupDataSubmission(RollupDataSubmission {
                        rollup_id: rollups[r],
                        data: Bytes::copy_from_slice(p),
                        fee_asset: nria().into(),
                    }));
                }
            }
        }
        match self.deposits {
            1 => out.push(lock(&BR1, 11)),
            2 => {
                out.push(lock(&BR1, 11));
                out.push(lock(&BR2, 12));
            }
            3 => {
                out.push(lock(&BR1, 11));
                out.push(lock(&BR1, 13));
            }
            _ => {}
        }
        out
    }
}

/// What a rollup must see, derived from the *included transactions* only.
#[derive(Clone, Debug, PartialEq, Eq)]
enum Item {
    Payload(Vec<u8>),
    Deposit {
        bridge: [u8; 20],
        amount: u128,
        dest: String,
        tx_id: [u8; 32],
        action_index: u64,
    },
}

fn reference(included: &[Bytes]) -> BTreeMap<RollupId, Vec<Item>> {
    use astria_core::generated::astria::protocol::transaction::v1 as rawtx;
    let bridge_rollup = |a: &astria_core::primitive::v1::Address| -> RollupId {
        if a.bytes() == BR1.address_bytes() {
            r1()
        } else {
            r2()
        }
    };
    let mut payloads: BTreeMap<RollupId, Vec<Item>> = BTreeMap::new();
    let mut deposits: BTreeMap<RollupId, Vec<Item>> = BTreeMap::new();
    for b in included {
        let tx = Transaction::try_from_raw(rawtx::Transaction::decode(b.clone()).unwrap()).unwrap();
        let tx_id: [u8; 32] = Sha256::digest(b).into();
        for (i, a) in tx.actions().iter().enumerate() {
            match a {
                Action::RollupDataSubmission(s) => {
                    payloads.entry(s.rollup_id).or_default().push(Item::Payload(s.data.to_vec()));
                }
                Action::BridgeLock(l) => deposits.entry(bridge_rollup(&l.to)).or_default().push(Item::Deposit {
                    bridge: l.to.bytes(),
                    amount: l.amount,
                    dest: l.destination_chain_address.clone(),
                    tx_id,
                    action_index: i as u64,
                }),
                _ => {}
            }
        }
    }
    // payloads in block order, then the rollup's deposits
    for (r, d) in deposits {
        payloads.entry(r).or_default().extend(d);
    }
    payloads
}

fn decode_items(txs: &[Bytes]) -> Result<Vec<Item>, String> {
    txs.iter()
        .map(|b| {
            let raw = raw::RollupData::decode(b.clone()).map_err(|e| e.to_string())?;
            match RollupData::try_from_raw(raw).map_err(|e| e.to_string())? {
                RollupData::SequencedData(d) => Ok(Item::Payload(d.to_vec())),
                RollupData::Deposit(d) => Ok(Item::Deposit {
                    bridge: d.bridge_address.bytes(),
                    amount: d.amount,
                    dest: d.destination_chain_address.clone(),
                    tx_id: d.source_transaction_id.get(),
                    action_index: d.source_action_index,
                }),
                other => Err(format!("unexpected rollup data kind {other:?}")),
            }
        })
        .collect()
}

/// Independent recomputation of the rollup-data root: leaves sorted by rollup id, leaf =
/// rollup id || MTH(transactions).
fn reference_root(per_rollup: &BTreeMap<RollupId, Vec<Bytes>>) -> [u8; 32] {
    let mut tree = merkle::Tree::new();
    for (id, txs) in per_rollup {
        let inner = merkle::Tree::from_leaves(txs.iter()).root();
        let mut leaf = id.as_bytes().to_vec();
        leaf.extend_from_slice(&inner);
        tree.push(&leaf);
    }
    tree.root()
}

fn audit_celestia(rollup: &SubmittedRollupData, metadata: &SubmittedMetadata) -> bool {
    rollup
        .proof()
        .audit()
        .with_root(*metadata.rollup_transactions_root())
        .with_leaf_builder()
        .write(rollup.rollup_id().as_bytes())
        .write(&merkle::Tree::from_leaves(rollup.transactions()).root())
        .finish_leaf()
        .perform()
}

struct Worker {
    chain: Chain,
    server: Arc<SequencerServer>,
    signers: Vec<SigningKey>,
}

impl Worker {
    async fn new() -> Self {
        let chain = Chain::universe().await;
        let upgrades = astria_core::upgrades::test_utils::UpgradesBuilder::new().set_aspen(Some(1)).set_blackburn(Some(3)).build();
        let server = Arc::new(SequencerServer::new(chain.fixture.storage(), chain.fixture.mempool(), upgrades));
        Self {
            chain,
            server,
            signers: vec![ALICE.clone(), BOB.clone(), CAROL.clone(), DAVE.clone(), EVE.clone(), W.clone()],
        }
    }

    async fn run_shape(&mut self, shape: &Shape, rep: &mut Report) {
        rep.add("evaluations", 1);
        let actions = shape.actions();
        let mut txs = Vec::new();
        if shape.bundled {
            if !actions.is_empty() {
                txs.push(sign_tx(&ALICE, self.chain.nonce_of(&ALICE).await, actions.clone()).unwrap());
            }
        } else {
            let mut next: BTreeMap<[u8; 20], u32> = BTreeMap::new();
            for (i, a) in actions.iter().enumerate() {
                let k = self.signers[i % self.signers.len()].clone();
                let base = self.chain.nonce_of(&k).await;
                let n = next.entry(k.address_bytes()).or_insert(base);
                txs.push(sign_tx(&k, *n, vec![a.clone()]).unwrap());
                *n += 1;
            }
        }
        let height = self.chain.next_height;
        let out = self.chain.run_block(txs.clone()).await;
        let included: Vec<Bytes> = out.prepared.iter().skip(3).cloned().collect();
        let mut fail = |rep: &mut Report, clause: &str, signature: String, detail: String, extra: Option<(&str, J)>| {
            let mut case = shape.json();
            if let Some((k, v)) = extra {
                case = case.with(k, v);
            }
            rep.finding(Finding {
                clause: clause.into(),
                signature,
                detail: format!("block {height} {shape:?}: {detail}"),
                case,
            });
        };
        if included.len() != txs.len() || out.response.tx_results.iter().any(|r| r.code.is_err()) {
            fail(rep, "harness", "block did not include all shape transactions".into(), format!("{} of {}", included.len(), txs.len()), None);
            return;
        }
        let want = reference(&included);
        if !want.is_empty() {
            rep.add("distinct_nontrivial", 1);
        }
        // ---- full block through the gRPC server and the client-side checked type
        let raw_block = match self
            .server
            .clone()
            .get_sequencer_block(tonic::Request::new(GetSequencerBlockRequest {
                height,
            }))
            .await
        {
            Ok(r) => r.into_inner(),
            Err(e) => {
                fail(rep, "served", "get_sequencer_block fails".into(), e.to_string(), None);
                return;
            }
        };
        let block = match SequencerBlock::try_from_raw(raw_block.clone()) {
            Ok(b) => b,
            Err(e) => {
                fail(rep, "served", "served block fails client-side verification".into(), format!("{e:?}"), None);
                return;
            }
        };
        let mut got: BTreeMap<RollupId, Vec<Item>> = BTreeMap::new();
        let mut raw_per_rollup: BTreeMap<RollupId, Vec<Bytes>> = BTreeMap::new();
        for (id, rt) in block.rollup_transactions() {
            match decode_items(rt.transactions()) {
                Ok(items) => {
                    got.insert(*id, items);
                    raw_per_rollup.insert(*id, rt.transactions().to_vec());
                }
                Err(e) => {
                    fail(rep, "complete-ordered", "served rollup data does not decode".into(), e, None);
                    return;
                }
            }
        }
        if got != want {
            fail(
                rep,
                "complete-ordered",
                "served data differs from payloads-in-block-order then deposits".into(),
                format!("served {got:?}, reference {want:?}"),
                None,
            );
            return;
        }
        let keys: Vec<RollupId> = block.rollup_transactions().keys().copied().collect();
        let mut sorted = keys.clone();
        sorted.sort();
        if keys != sorted {
            fail(rep, "complete-ordered", "rollup entries not sorted by rollup id".into(), format!("{keys:?}"), None);
            return;
        }
        if *block.header().rollup_transactions_root() != reference_root(&raw_per_rollup) {
            fail(rep, "provable", "header root differs from the recomputed rollup-data root".into(), String::new(), None);
            return;
        }
        // ---- filtered, every subset of {r1, r2, r3, r4}
        let all = [r1(), r2(), r3(), r4()];
        // every ordered selection without repetition (65 requests), plus each non-empty one with its
        // first id repeated at the end; `mask` encodes the order in base 5 (digit = index + 1)
        let mut orders: Vec<Vec<usize>> = vec![vec![]];
        let mut frontier: Vec<Vec<usize>> = vec![vec![]];
        while let Some(o) = frontier.pop() {
            for i in 0..4 {
                if !o.contains(&i) {
                    let mut n = o.clone();
                    n.push(i);
                    orders.push(n.clone());
                    frontier.push(n);
                }
            }
        }
        let dups: Vec<Vec<usize>> = orders.iter().filter(|o| !o.is_empty() && o.len() < 4).map(|o| { let mut n = o.clone(); n.push(o[0]); n }).collect();
        orders.extend(dups);
        orders.sort();
        let natural: Vec<usize> = vec![0, 1, 2];
        for order in &orders {
            let mask: u32 = order.iter().fold(0u32, |acc, i| acc * 5 + (*i as u32 + 1));
            let req: Vec<RollupId> = order.iter().map(|i| all[*i]).collect();
            rep.add("evaluations", 1);
            let raw_f = match self
                .server
                .clone()
                .get_filtered_sequencer_block(tonic::Request::new(GetFilteredSequencerBlockRequest {
                    height,
                    rollup_ids: req.iter().map(|r| r.into_raw()).collect(),
                }))
                .await
            {
                Ok(r) => r.into_inner(),
                Err(e) => {
                    fail(rep, "served", "get_filtered_sequencer_block fails".into(), e.to_string(), Some(("filter_mask", J::i(mask))));
                    return;
                }
            };
            let f = match FilteredSequencerBlock::try_from_raw(raw_f.clone()) {
                Ok(f) => f,
                Err(e) => {
                    fail(rep, "served", "served filtered block fails client-side verification".into(), format!("{e:?}"), Some(("filter_mask", J::i(mask))));
                    return;
                }
            };
            let mut got_f: BTreeMap<RollupId, Vec<Item>> = BTreeMap::new();
            for (id, rt) in f.rollup_transactions() {
                got_f.insert(*id, decode_items(rt.transactions()).unwrap_or_default());
            }
            let want_f: BTreeMap<RollupId, Vec<Item>> = want.iter().filter(|(id, _)| req.contains(id)).map(|(a, b)| (*a, b.clone())).collect();
            if got_f != want_f {
                fail(
                    rep,
                    "complete-ordered",
                    "filtered data differs from the reference for the requested rollups".into(),
                    format!("requested {req:?}: served {got_f:?}, reference {want_f:?}"),
                    Some(("filter_mask", J::i(mask))),
                );
                return;
            }
            let ids: Vec<RollupId> = f.all_rollup_ids().to_vec();
            let want_ids: Vec<RollupId> = want.keys().copied().collect();
            if ids != want_ids {
                fail(
                    rep,
                    "complete-ordered",
                    "all_rollup_ids differs from the sorted set of rollups with data".into(),
                    format!("{ids:?} vs {want_ids:?}"),
                    Some(("filter_mask", J::i(mask))),
                );
                return;
            }
            // tampering of the filtered form (only for the full request, to bound cost)
            if *order == natural {
                for (what, t) in tamper_filtered(&raw_f) {
                    rep.add("evaluations", 1);
                    rep.add("tamperings", 1);
                    if FilteredSequencerBlock::try_from_raw(t).is_ok() {
                        fail(rep, "tamper-detected", format!("filtered: {} accepted", what.split(' ').next().unwrap_or("")), what, None);
                        return;
                    }
                }
            }
        }
        // ---- tampering of the full served form
        for (what, t) in tamper_full(&raw_block) {
            rep.add("evaluations", 1);
            rep.add("tamperings", 1);
            if SequencerBlock::try_from_raw(t).is_ok() {
                fail(rep, "tamper-detected", format!("full: {} accepted", what.split(' ').next().unwrap_or("")), what, None);
                return;
            }
        }
        // ---- Celestia split
        let (metadata, rollups) = block.clone().split_for_celestia();
        let metadata = match SubmittedMetadata::try_from_raw(metadata.into_raw()) {
            Ok(m) => m,
            Err(e) => {
                fail(rep, "provable", "celestia metadata fails its own verification".into(), format!("{e:?}"), None);
                return;
            }
        };
        let meta_ids: Vec<RollupId> = metadata.rollup_ids().copied().collect();
        if meta_ids != want.keys().copied().collect::<Vec<_>>() {
            fail(rep, "complete-ordered", "celestia metadata rollup ids differ".into(), format!("{meta_ids:?}"), None);
            return;
        }
        let mut seen = BTreeSet::new();
        for r in &rollups {
            let r2 = SubmittedRollupData::try_from_raw(r.clone().into_raw()).expect("round trip");
            seen.insert(r2.rollup_id());
            if !audit_celestia(&r2, &metadata) {
                fail(rep, "provable", "celestia rollup entry does not verify against the metadata".into(), format!("{:?}", r2.rollup_id()), None);
                return;
            }
            if decode_items(r2.transactions()).ok().as_ref() != want.get(&r2.rollup_id()) {
                fail(rep, "complete-ordered", "celestia rollup entry differs from the reference".into(), format!("{:?}", r2.rollup_id()), None);
                return;
            }
            if r2.sequencer_block_hash() != block.block_hash() {
                fail(rep, "provable", "celestia rollup entry names another block".into(), String::new(), None);
                return;
            }
            // tampering of the celestia form: the conductor-side audit must fail
            for (what, t) in tamper_celestia(&r2, &rollups) {
                rep.add("evaluations", 1);
                rep.add("tamperings", 1);
                let Ok(t) = SubmittedRollupData::try_from_raw(t) else {
                    continue;
                };
                if audit_celestia(&t, &metadata) {
                    fail(rep, "tamper-detected", format!("celestia: {} accepted", what.split(' ').next().unwrap_or("")), what, None);
                    return;
                }
            }
        }
        if seen != want.keys().copied().collect() {
            fail(rep, "complete-ordered", "celestia split misses or invents a rollup".into(), format!("{seen:?}"), None);
            return;
        }
        if rep.wants_sample() && want.len() == 3 && shape.deposits == 2 {
            rep.sample(shape.json().with("height", J::i(height)).with("rollups_with_data", J::i(want.len())));
        }
    }
}

fn tamper_rollup_list(list: &[raw::RollupTransactions]) -> Vec<(String, Vec<raw::RollupTransactions>)> {
    let mut out = Vec::new();
    for (ri, rt) in list.iter().enumerate() {
        for ti in 0..rt.transactions.len() {
            let mut l = list.to_vec();
            let mut b = l[ri].transactions[ti].to_vec();
            if b.is_empty() {
                b.push(1);
            } else {
                let last = b.len() - 1;
                b[last] ^= 1;
            }
            l[ri].transactions[ti] = b.into();
            out.push((format!("flip-payload-byte rollup#{ri} tx#{ti}"), l));
        }
        if rt.transactions.len() >= 2 && rt.transactions[0] != rt.transactions[1] {
            let mut l = list.to_vec();
            l[ri].transactions.swap(0, 1);
            out.push((format!("swap-payloads rollup#{ri}"), l));
        }
        if !rt.transactions.is_empty() {
            let mut l = list.to_vec();
            l[ri].transactions.pop();
            out.push((format!("drop-last rollup#{ri}"), l));
        }
        {
            let mut l = list.to_vec();
            let extra = l[ri].transactions.first().cloned().unwrap_or_else(|| Bytes::from_static(b"\x0a\x01x"));
            l[ri].transactions.push(extra);
            out.push((format!("append rollup#{ri}"), l));
        }
        {
            let mut l = list.to_vec();
            l[ri].rollup_id = Some(r4().into_raw());
            out.push((format!("relabel-rollup-id rollup#{ri}"), l));
        }
        if list.len() >= 2 {
            let other = (ri + 1) % list.len();
            let mut l = list.to_vec();
            let p = l[other].proof.clone();
            l[other].proof = l[ri].proof.clone();
            l[ri].proof = p;
            out.push((format!("swap-proofs rollup#{ri}<->#{other}"), l));
            if !rt.transactions.is_empty() {
                let mut l = list.to_vec();
                let moved = l[ri].transactions.remove(0);
                l[other].transactions.push(moved);
                out.push((format!("move-entry rollup#{ri}->#{other}"), l));
            }
        }
        if let Some(p) = &rt.proof {
            if !p.audit_path.is_empty() {
                let mut l = list.to_vec();
                let mut path = p.audit_path.to_vec();
                path[0] ^= 1;
                l[ri].proof.as_mut().unwrap().audit_path = path.into();
                out.push((format!("flip-audit-path-byte rollup#{ri}"), l));
            }
        }
    }
    out
}

fn tamper_full(b: &raw::SequencerBlock) -> Vec<(String, raw::SequencerBlock)> {
    // The full form authenticates the data by recomputing the whole tree; the per-rollup proofs it
    // carries are not what binds the data there, so proof-only tamperings are not must-reject cases.
    tamper_rollup_list(&b.rollup_transactions)
        .into_iter()
        .filter(|(w, _)| !w.starts_with("swap-proofs") && !w.starts_with("flip-audit-path-byte"))
        .map(|(w, l)| {
            let mut t = b.clone();
            t.rollup_transactions = l;
            (w, t)
        })
        .collect()
}

fn tamper_filtered(b: &raw::FilteredSequencerBlock) -> Vec<(String, raw::FilteredSequencerBlock)> {
    let mut out: Vec<(String, raw::FilteredSequencerBlock)> = tamper_rollup_list(&b.rollup_transactions)
        .into_iter()
        .map(|(w, l)| {
            let mut t = b.clone();
            t.rollup_transactions = l;
            (w, t)
        })
        .collect();
    if !b.all_rollup_ids.is_empty() {
        let mut t = b.clone();
        t.all_rollup_ids.pop();
        out.push(("drop-from-all-rollup-ids".into(), t));
        let mut t = b.clone();
        t.all_rollup_ids.push(r4().into_raw());
        out.push(("append-to-all-rollup-ids".into(), t));
    }
    out
}

fn tamper_celestia(r: &SubmittedRollupData, all: &[SubmittedRollupData]) -> Vec<(String, raw::SubmittedRollupData)> {
    let base = r.clone().into_raw();
    let mut out = Vec::new();
    for ti in 0..base.transactions.len() {
        let mut t = base.clone();
        let mut b = t.transactions[ti].to_vec();
        if b.is_empty() {
            b.push(1);
        } else {
            let last = b.len() - 1;
            b[last] ^= 1;
        }
        t.transactions[ti] = b.into();
        out.push((format!("flip-payload-byte tx#{ti}"), t));
    }
    if !base.transactions.is_empty() {
        let mut t = base.clone();
        t.transactions.pop();
        out.push(("drop-last".into(), t));
    }
    let mut t = base.clone();
    t.transactions.push(Bytes::from_static(b"\x0a\x01x"));
    out.push(("append".into(), t));
    let mut t = base.clone();
    t.rollup_id = Some(r4().into_raw());
    out.push(("relabel-rollup-id".into(), t));
    for other in all {
        if other.rollup_id() != r.rollup_id() {
            let mut t = base.clone();
            t.proof = Some(other.proof().clone().into_raw());
            out.push(("swap-proof-with-other-rollup".into(), t));
        }
    }
    out
}

fn shapes(thorough: bool) -> Vec<Shape> {
    let mut out = Vec::new();
    let n = PAYLOAD_LISTS.len();
    for a in 0..n {
        for b in 0..n {
            for c in 0..n {
                for deposits in 0..4 {
                    for bundled in [true, false] {
                        // quick tier: a thinned but systematic grid
                        if !thorough && (a + 2 * b + 3 * c + deposits) % 3 != 0 {
                            continue;
                        }
                        out.push(Shape {
                            lists: [a, b, c],
                            deposits,
                            bundled,
                        });
                    }
                }
            }
        }
    }
    out
}

#[test]
fn verif_c07_serve() {
    let mut rep = Report::new("C07", "serve");
    let thorough = report::tier() == Tier::Thorough;
    if let Some(case) = report::load_replay("C07", "serve") {
        let shape = Shape::from_json(&case);
        let mut w = block_on(Worker::new());
        block_on(w.run_shape(&shape, &mut rep));
        rep.finish();
        return;
    }
    let all = shapes(thorough);
    rep.rule(&format!(
        "block shapes: per-rollup payload list from {{none, [0x00], [a], [a,a], [a,b]}} for 3 rollups x deposits {{none, 1, 2 to two \
         bridges, 2 to one bridge}} x {{one bundle, one transaction per item with rotating signers}} ({}: {} shapes), payloads \
         interleaved against rollup-id order; each block produced by the real CheckTx/PrepareProposal/FinalizeBlock/Commit and \
         read back through the real gRPC server for the full block and every ordered selection of the 4 rollup ids (65 request orders, plus 40 with a repeated id); oracle: decoded \
         data == payloads in block order then deposits (reference derived from the included transactions), ids sorted = rollups \
         with data, header root == independently recomputed root, Celestia split verifies; every single-element tampering \
         (flip payload byte, swap, drop, append, relabel rollup id, move entry; for the proof-bound filtered and Celestia forms also swap proofs, flip audit-path byte) of \
         the full, filtered and Celestia forms must fail verification",
        if thorough { "all" } else { "every third of the grid" },
        all.len()
    ));
    let next = std::sync::atomic::AtomicUsize::new(0);
    let partials: std::sync::Mutex<Vec<Report>> = std::sync::Mutex::new(Vec::new());
    std::thread::scope(|scope| {
        for _ in 0..report::workers() {
            scope.spawn(|| {
                let mut w = block_on(Worker::new());
                let mut local = Report::new("C07", "serve");
                loop {
                    let i = next.fetch_add(1, std::sync::atomic::Ordering::Relaxed);
                    if i >= all.len() {
                        break;
                    }
                    block_on(w.run_shape(&all[i], &mut local));
                }
                partials.lock().unwrap().push(local);
            });
        }
    });
    for r in partials.into_inner().unwrap() {
        rep.absorb(r);
    }
    rep.assume("astria-merkle (checked under C08) is used to recompute roots and to audit the Celestia form with the conductor's leaf format");
    rep.finish();
}
