// B-level: block granularity through the real ABCI handlers on real (temp) storage.
// C05: schedule enumeration — every sequence of pre-calls (PrepareProposal / ProcessProposal of the
// decided or of another proposal, an invalid proposal, a restart) before FinalizeBlock+Commit of
// the same decided block, each on its own identically built chain; differential oracle.
#![allow(clippy::all, clippy::pedantic, dead_code, unused_imports)]

use std::{
    collections::BTreeMap,
    sync::Arc,
};

use astria_core::{
    crypto::SigningKey,
    generated::price_feed::abci::v2::OracleVoteExtension as RawOracleVoteExtension,
    protocol::transaction::v1::{
        action::{
            CurrencyPairsChange,
            FeeChange,
            SudoAddressChange,
        },
        Action,
    },
};
use bytes::Bytes;
use prost::Message as _;
use tendermint::{
    abci,
    abci::types::{
        BlockSignatureInfo::Flag,
        CommitInfo,
        ExtendedCommitInfo,
        ExtendedVoteInfo,
        Validator,
        VoteInfo,
    },
    block::{
        BlockIdFlag,
        Height,
    },
    Hash,
};
use tendermint_proto::v0_38::types::CanonicalVoteExtension;

use super::{
    addr,
    block_hash,
    block_on,
    block_time,
    dump_state,
    engine::{
        json::J,
        report::{
            self,
            Finding,
            Report,
            Tier,
        },
    },
    new_app_on,
    proposer,
    r1,
    r2,
    sign_tx,
    tlevel::{
        self,
        lock,
        rollup_data,
        transfer,
        validator_update,
        TxT,
    },
    Chain,
    Dump,
    BR1,
    DAVE,
    EVE,
    W,
};
use crate::test_utils::{
    nria,
    ALICE,
    BOB,
    CAROL,
    SUDO,
};

// ---------------------------------------------------------------------------------------------
// Block material
// ---------------------------------------------------------------------------------------------

/// Extended commit for the block at `height`, carrying vote extensions signed at `height - 1` by
/// the genesis validators ALICE, BOB, CAROL (power 10 each) with the given prices for pair id 0/1;
/// `None` prices = an empty extended commit.
pub(crate) fn extended_commit(height: u64, prices: Option<[i128; 3]>) -> ExtendedCommitInfo {
    let round = 0u16;
    let Some(prices) = prices else {
        return ExtendedCommitInfo {
            round: round.into(),
            votes: vec![],
        };
    };
    let votes = [&*ALICE, &*BOB, &*CAROL]
        .iter()
        .zip(prices)
        .map(|(k, price)| {
            let mut map = BTreeMap::new();
            map.insert(0u64, Bytes::copy_from_slice(&price.to_be_bytes()));
            map.insert(1u64, Bytes::copy_from_slice(&(price * 2).to_be_bytes()));
            let ext = RawOracleVoteExtension {
                prices: map,
            }
            .encode_to_vec();
            let msg = CanonicalVoteExtension {
                extension: ext.clone(),
                height: i64::try_from(height - 1).unwrap(),
                round: i64::from(round),
                chain_id: "test".to_string(),
            }
            .encode_length_delimited_to_vec();
            ExtendedVoteInfo {
                validator: Validator {
                    address: k.address_bytes(),
                    power: 10u32.into(),
                },
                sig_info: Flag(BlockIdFlag::Commit),
                vote_extension: ext.into(),
                extension_signature: Some(k.sign(&msg).to_bytes().to_vec().try_into().unwrap()),
            }
        })
        .collect();
    ExtendedCommitInfo {
        round: round.into(),
        votes,
    }
}

pub(crate) fn commit_info_of(eci: &ExtendedCommitInfo) -> CommitInfo {
    CommitInfo {
        round: eci.round,
        votes: eci
            .votes
            .iter()
            .map(|v| VoteInfo {
                validator: v.validator.clone(),
                sig_info: v.sig_info,
            })
            .collect(),
    }
}

#[derive(Clone)]
pub(crate) struct Proposal {
    pub txs: Vec<Bytes>,
    pub eci: ExtendedCommitInfo,
    pub height: u64,
    pub salt: u8,
}

impl Proposal {
    pub(crate) fn prepare_request(&self, max_tx_bytes: i64) -> abci::request::PrepareProposal {
        abci::request::PrepareProposal {
            max_tx_bytes,
            txs: vec![],
            local_last_commit: Some(self.eci.clone()),
            misbehavior: vec![],
            height: Height::try_from(self.height).unwrap(),
            time: block_time(self.height),
            next_validators_hash: Hash::default(),
            proposer_address: proposer(),
        }
    }

    pub(crate) fn process_request(&self) -> abci::request::ProcessProposal {
        abci::request::ProcessProposal {
            txs: self.txs.clone(),
            proposed_last_commit: Some(commit_info_of(&self.eci)),
            misbehavior: vec![],
            hash: block_hash(self.height, self.salt),
            height: Height::try_from(self.height).unwrap(),
            time: block_time(self.height),
            next_validators_hash: Hash::default(),
            proposer_address: proposer(),
        }
    }

    pub(crate) fn finalize_request(&self) -> abci::request::FinalizeBlock {
        abci::request::FinalizeBlock {
            txs: self.txs.clone(),
            decided_last_commit: commit_info_of(&self.eci),
            misbehavior: vec![],
            hash: block_hash(self.height, self.salt),
            height: Height::try_from(self.height).unwrap(),
            time: block_time(self.height),
            next_validators_hash: Hash::default(),
            proposer_address: proposer(),
        }
    }
}

impl Chain {
    /// The deterministic universe every C05 path starts from.
    pub(crate) async fn universe() -> Chain {
        let mut chain = Chain::new().await;
        chain.setup_bridges_and_fee_asset().await;
        chain
    }

    pub(crate) async fn feed_mempool(&mut self, txs: &[(SigningKey, Vec<Action>)]) -> usize {
        let mut nonces: BTreeMap<[u8; 20], u32> = BTreeMap::new();
        let mut rejected = 0;
        for (k, actions) in txs {
            let n = match nonces.get(&k.address_bytes()) {
                Some(n) => *n,
                None => self.nonce_of(k).await,
            };
            nonces.insert(k.address_bytes(), n + 1);
            let Some(bytes) = sign_tx(k, n, actions.clone()) else {
                rejected += 1;
                continue;
            };
            let outcome = crate::service::mempool::check_tx(
                bytes,
                self.fixture.storage().latest_snapshot(),
                &self.fixture.mempool(),
                self.fixture.metrics(),
            )
            .await;
            if !matches!(
                outcome,
                crate::service::mempool::CheckTxOutcome::AddedToPending(_)
                    | crate::service::mempool::CheckTxOutcome::AddedToParked(_)
            ) {
                rejected += 1;
            }
        }
        rejected
    }

    /// Lets this chain's app build a proposal from `txs` (through CheckTx and PrepareProposal).
    pub(crate) async fn propose(
        &mut self,
        txs: &[(SigningKey, Vec<Action>)],
        eci: ExtendedCommitInfo,
        salt: u8,
        max_tx_bytes: i64,
    ) -> Result<Proposal, String> {
        self.feed_mempool(txs).await;
        let mut p = Proposal {
            txs: vec![],
            eci,
            height: self.next_height,
            salt,
        };
        let storage = self.fixture.storage();
        let resp = self
            .fixture
            .app
            .prepare_proposal(p.prepare_request(max_tx_bytes), storage)
            .await
            .map_err(|e| format!("{e:?}"))?;
        p.txs = resp.txs;
        Ok(p)
    }
}

// ---------------------------------------------------------------------------------------------
// C05
// ---------------------------------------------------------------------------------------------

#[derive(Clone, Copy, Debug, PartialEq, Eq, Hash, PartialOrd, Ord)]
enum Pre {
    /// this node proposes with the decided block's transactions in its mempool
    PrepareDecided,
    /// this node proposes something else in an earlier round
    PrepareOther,
    ProcessDecided,
    ProcessOther,
    ProcessInvalid,
    /// a proposal that is rejected only after some of its transactions have executed
    ProcessPartial,
    /// the process restarts: a fresh App on the same storage
    Restart,
}

const PRES: &[Pre] = &[
    Pre::ProcessDecided,
    Pre::PrepareDecided,
    Pre::ProcessOther,
    Pre::PrepareOther,
    Pre::ProcessInvalid,
    Pre::ProcessPartial,
    Pre::Restart,
];

type TxList = Vec<(SigningKey, Vec<Action>)>;

struct BlockKind {
    name: &'static str,
    txs: fn() -> TxList,
    other_txs: fn() -> TxList,
    prices: Option<[i128; 3]>,
}

fn pair(name: &str) -> astria_core::oracles::price_feed::types::v2::CurrencyPair {
    name.parse().unwrap()
}

fn block_kinds() -> Vec<BlockKind> {
    let n = || -> astria_core::primitive::v1::asset::Denom { nria().into() };
    vec![
        BlockKind {
            name: "transfers+data",
            txs: || {
                vec![
                    (ALICE.clone(), vec![transfer(&BOB, 100, nria().into(), nria().into())]),
                    (BOB.clone(), vec![rollup_data(r1(), 3)]),
                ]
            },
            other_txs: || vec![(CAROL.clone(), vec![transfer(&DAVE, 7, nria().into(), nria().into())])],
            prices: None,
        },
        BlockKind {
            name: "empty+prices",
            txs: || vec![],
            other_txs: || vec![(CAROL.clone(), vec![transfer(&DAVE, 7, nria().into(), nria().into())])],
            prices: Some([100, 104, 96]),
        },
        BlockKind {
            name: "lock+validator-update+fee-change+prices",
            txs: || {
                vec![
                    (ALICE.clone(), vec![lock(&BR1, 50)]),
                    (SUDO.clone(), vec![validator_update(&DAVE, 4), tlevel::fee_change_transfer(9, 0)]),
                ]
            },
            other_txs: || vec![(BOB.clone(), vec![rollup_data(r2(), 1)])],
            prices: Some([7, 8, 9]),
        },
        BlockKind {
            name: "remove-priced-pair",
            txs: || {
                vec![(
                    SUDO.clone(),
                    vec![Action::CurrencyPairsChange(CurrencyPairsChange::Removal([pair("BTC/USD")].into_iter().collect()))],
                )]
            },
            other_txs: || vec![],
            prices: Some([100, 104, 96]),
        },
        BlockKind {
            name: "remove-and-readd-priced-pair",
            txs: || {
                vec![(
                    SUDO.clone(),
                    vec![
                        Action::CurrencyPairsChange(CurrencyPairsChange::Removal([pair("BTC/USD")].into_iter().collect())),
                        Action::CurrencyPairsChange(CurrencyPairsChange::Addition([pair("BTC/USD")].into_iter().collect())),
                    ],
                )]
            },
            other_txs: || vec![],
            prices: Some([100, 104, 96]),
        },
        BlockKind {
            name: "add-pair+sudo-change",
            txs: || {
                vec![
                    (SUDO.clone(), vec![Action::CurrencyPairsChange(CurrencyPairsChange::Addition([pair("TIA/USD")].into_iter().collect()))]),
                    (SUDO.clone(), vec![Action::SudoAddressChange(SudoAddressChange {
                        new_address: addr(&EVE),
                    })]),
                    (ALICE.clone(), vec![transfer(&BOB, 1, nria().into(), nria().into())]),
                ]
            },
            other_txs: || vec![(ALICE.clone(), vec![transfer(&CAROL, 2, nria().into(), nria().into())])],
            prices: Some([5, 5, 5]),
        },
    ]
}

#[derive(Clone, Debug, PartialEq, Eq)]
struct PathOutcome {
    /// Err(text) if FinalizeBlock (or Commit) failed / panicked
    finalize: Result<FinalizeSummary, String>,
    pre_results: Vec<bool>,
}

#[derive(Clone, Debug, PartialEq, Eq)]
struct FinalizeSummary {
    app_hash: String,
    tx_results: Vec<(u32, String, i64, i64)>,
    validator_updates: Vec<String>,
    consensus_param_updates: String,
    committed: Dump,
    n_events: usize,
    /// the next height, executed on the same node through the ordinary prepare / finalize / commit
    /// path: (app hash, per-tx codes) or the error
    followup: Result<(String, Vec<u32>), String>,
}

#[derive(Clone)]
struct Material {
    decided: Proposal,
    other: Proposal,
    invalid: Proposal,
    partial: Proposal,
    /// a block for the next height, proposed by the proposer after it finalized the decided block
    /// (None if the proposer itself cannot finalize it)
    followup: Option<Proposal>,
}

/// The decided block is built once per block kind by a real proposer; every path receives exactly
/// these bytes (the encoding of a proposal may legitimately differ between proposers, e.g. in the
/// order of the currency-pair mapping).
async fn build_material(kind: &BlockKind) -> Material {
    let mut proposer_chain = Chain::universe().await;
    let height = proposer_chain.next_height;
    let eci = extended_commit(height, kind.prices);
    let decided = proposer_chain.propose(&(kind.txs)(), eci.clone(), 1, 1_000_000).await.expect("proposer prepares");
    let mut other_chain = Chain::universe().await;
    let other = other_chain.propose(&(kind.other_txs)(), extended_commit(height, None), 2, 1_000_000).await.expect("other proposal");
    let mut invalid = decided.clone();
    invalid.salt = 3;
    if let Some(first) = invalid.txs.first_mut() {
        let mut b = first.to_vec();
        let last = b.len() - 1;
        b[last] ^= 0x55;
        *first = b.into();
    }
    // the other proposal followed by a transfer with a nonce gap: commitments stay valid (a transfer
    // carries no rollup data), so it is rejected during execution, after `other`'s transactions ran
    let mut partial = other.clone();
    partial.salt = 4;
    let gap_nonce = other_chain.nonce_of(&W).await + 7;
    partial.txs.push(sign_tx(&W, gap_nonce, vec![transfer(&DAVE, 5, nria().into(), nria().into())]).expect("gapped transfer"));
    // the proposer finalizes its own block and proposes the next height
    let storage = proposer_chain.fixture.storage();
    let finalized = proposer_chain.fixture.app.finalize_block(decided.finalize_request(), storage.clone()).await.is_ok()
        && proposer_chain.fixture.app.commit(storage).await.is_ok();
    let followup = if finalized {
        proposer_chain.next_height = decided.height + 1;
        let eve_nonce_tx: TxList = vec![(EVE.clone(), vec![transfer(&DAVE, 1, nria().into(), nria().into())])];
        // drop whatever the first proposal left in the proposer's mempool view: propose() only adds
        proposer_chain.propose(&eve_nonce_tx, extended_commit(decided.height + 1, None), 5, 1_000_000).await.ok()
    } else {
        None
    };
    Material {
        decided,
        other,
        invalid,
        partial,
        followup,
    }
}

async fn run_path(kind: &BlockKind, material: &Material, path: &[Pre]) -> PathOutcome {
    let Material {
        decided,
        other,
        invalid,
        partial,
        followup: followup_block,
    } = material.clone();
    // the node under test
    let mut node = Chain::universe().await;
    let storage = node.fixture.storage();
    let mut pre_results = Vec::new();
    for pre in path {
        let ok = match pre {
            Pre::PrepareDecided => {
                node.feed_mempool(&(kind.txs)()).await;
                node.fixture.app.prepare_proposal(decided.prepare_request(1_000_000), storage.clone()).await.is_ok()
            }
            Pre::PrepareOther => {
                node.feed_mempool(&(kind.other_txs)()).await;
                node.fixture
                    .app
                    .prepare_proposal(other.prepare_request(1_000_000), storage.clone())
                    .await
                    .is_ok()
            }
            Pre::ProcessDecided => node.fixture.app.process_proposal(decided.process_request(), storage.clone()).await.is_ok(),
            Pre::ProcessOther => node.fixture.app.process_proposal(other.process_request(), storage.clone()).await.is_ok(),
            Pre::ProcessInvalid => node.fixture.app.process_proposal(invalid.process_request(), storage.clone()).await.is_ok(),
            Pre::ProcessPartial => node.fixture.app.process_proposal(partial.process_request(), storage.clone()).await.is_ok(),
            Pre::Restart => {
                let mempool_backup = node.fixture.mempool();
                let _ = mempool_backup;
                node.fixture.app = new_app_on(&storage).await;
                true
            }
        };
        pre_results.push(ok);
    }
    let fin = node.fixture.app.finalize_block(decided.finalize_request(), storage.clone()).await;
    let finalize = match fin {
        Err(e) => Err(format!("{e:#}").chars().take(300).collect()),
        Ok(resp) => match node.fixture.app.commit(storage.clone()).await {
            Err(e) => Err(format!("commit failed: {e:#}")),
            Ok(_) => {
                let committed = dump_state(&storage.latest_snapshot()).await;
                // a second block on top: anything left over from the first height's calls (cached
                // execution results, proposal fingerprints) would show here
                let followup = match &followup_block {
                    None => Err("no follow-up block".to_string()),
                    Some(f) => {
                        let run = async {
                            let resp = node.fixture.app.finalize_block(f.finalize_request(), storage.clone()).await.map_err(|e| format!("{e:#}"))?;
                            node.fixture.app.commit(storage.clone()).await.map_err(|e| format!("commit: {e:#}"))?;
                            Ok::<_, String>((
                                report::hex(resp.app_hash.as_bytes()),
                                resp.tx_results.iter().map(|r| r.code.value()).collect::<Vec<u32>>(),
                            ))
                        };
                        match futures::FutureExt::catch_unwind(std::panic::AssertUnwindSafe(run)).await {
                            Ok(r) => r,
                            Err(e) => Err(format!("PANIC: {}", report::panic_text(&e))),
                        }
                    }
                };
                Ok(FinalizeSummary {
                    app_hash: report::hex(resp.app_hash.as_bytes()),
                    tx_results: resp
                        .tx_results
                        .iter()
                        .map(|r| (r.code.value(), report::hex(&r.data), r.gas_wanted, r.gas_used))
                        .collect(),
                    validator_updates: resp.validator_updates.iter().map(|u| format!("{u:?}")).collect(),
                    consensus_param_updates: format!("{:?}", resp.consensus_param_updates),
                    committed,
                    n_events: resp.events.len(),
                    followup,
                })
            }
        },
    };
    PathOutcome {
        finalize,
        pre_results,
    }
}

fn all_paths(max_len: usize) -> Vec<Vec<Pre>> {
    let mut out = vec![vec![]];
    let mut level: Vec<Vec<Pre>> = vec![vec![]];
    for _ in 0..max_len {
        let mut next = Vec::new();
        for p in &level {
            for pre in PRES {
                // two restarts in a row, or a restart first, add nothing
                if *pre == Pre::Restart && p.last().map_or(true, |l| *l == Pre::Restart) {
                    continue;
                }
                let mut q = p.clone();
                q.push(*pre);
                out.push(q.clone());
                next.push(q);
            }
        }
        level = next;
    }
    out
}

fn path_json(kind: &str, path: &[Pre]) -> J {
    J::obj().with("block", J::s(kind)).with("path", J::arr(path.iter().map(|p| J::s(format!("{p:?}")))))
}

fn run_with_catch(kind: &BlockKind, material: &Material, path: &[Pre]) -> PathOutcome {
    let r = std::panic::catch_unwind(std::panic::AssertUnwindSafe(|| block_on(run_path(kind, material, path))));
    match r {
        Ok(o) => o,
        Err(e) => PathOutcome {
            finalize: Err(format!("PANIC: {}", report::panic_text(&e))),
            pre_results: vec![],
        },
    }
}

#[test]
fn verif_c05_paths() {
    let mut rep = Report::new("C05", "paths");
    let kinds = block_kinds();
    if let Some(case) = report::load_replay("C05", "paths") {
        let kind = kinds.iter().find(|k| Some(k.name) == case.get("block").and_then(J::as_str)).expect("block kind");
        let path: Vec<Pre> = case
            .get("path")
            .and_then(J::as_arr)
            .unwrap()
            .iter()
            .map(|p| *PRES.iter().find(|x| format!("{x:?}") == p.as_str().unwrap()).unwrap())
            .collect();
        let material = block_on(build_material(kind));
        let base = run_with_catch(kind, &material, &[]);
        let a = run_with_catch(kind, &material, &path);
        let b = run_with_catch(kind, &material, &path);
        assert_eq!(a, b, "uncontrolled nondeterminism");
        if let Some((clause, sig, detail)) = compare(&base, &a) {
            rep.finding(Finding {
                clause,
                signature: format!("{}: {sig}", kind.name),
                detail,
                case,
            });
        }
        rep.finish();
        return;
    }
    let thorough = report::tier() == Tier::Thorough;
    let max_len = if thorough { 3 } else { 2 };
    let paths = all_paths(max_len);
    rep.rule(&format!(
        "for each of {} decided blocks (transfers + rollup data; prices only; lock + validator update + fee change + prices; \
         removal of a currency pair priced by the block's own extended commit; removal and re-addition; pair addition + sudo \
         change), built by a real proposer through CheckTx + PrepareProposal with vote extensions signed by the genesis \
         validators: every sequence of <= {max_len} pre-calls from {{ProcessProposal(decided), PrepareProposal(decided \
         mempool), ProcessProposal(other), PrepareProposal(other), ProcessProposal(invalid), ProcessProposal(rejected after partial execution), restart}} ({} paths) followed by \
         FinalizeBlock(decided) + Commit on an identically built chain; differential oracle against the sync path (no \
         pre-calls): app hash, per-tx (code, data, gas), validator and consensus-parameter updates, full committed state dump, \
         and no path fails where another succeeds",
        kinds.len(),
        paths.len()
    ));
    let materials: Vec<Material> = kinds.iter().map(|k| block_on(build_material(k))).collect();
    let work: Vec<(usize, usize)> = (0..kinds.len()).flat_map(|k| (0..paths.len()).map(move |p| (k, p))).collect();
    let next = std::sync::atomic::AtomicUsize::new(0);
    let results: std::sync::Mutex<Vec<(usize, usize, PathOutcome)>> = std::sync::Mutex::new(Vec::new());
    std::thread::scope(|scope| {
        for _ in 0..report::workers() {
            scope.spawn(|| loop {
                let i = next.fetch_add(1, std::sync::atomic::Ordering::Relaxed);
                if i >= work.len() {
                    break;
                }
                let (k, p) = work[i];
                let out = run_with_catch(&kinds[k], &materials[k], &paths[p]);
                results.lock().unwrap().push((k, p, out));
            });
        }
    });
    let mut results = results.into_inner().unwrap();
    results.sort_by_key(|(k, p, _)| (*k, *p));
    let mut distinct = std::collections::BTreeSet::new();
    for (k, p, out) in &results {
        rep.add("evaluations", 1);
        if !paths[*p].is_empty() {
            rep.add("distinct_nontrivial", 1);
        }
        let base = &results.iter().find(|(kk, pp, _)| kk == k && paths[*pp].is_empty()).unwrap().2;
        distinct.insert(format!("{:?}", out.finalize.as_ref().map(|f| f.app_hash.clone())));
        if let Some((clause, sig, detail)) = compare(base, out) {
            rep.finding(Finding {
                clause,
                signature: format!("{}: {sig}", kinds[*k].name),
                detail: format!("block `{}` path {:?}: {detail}", kinds[*k].name, paths[*p]),
                case: path_json(kinds[*k].name, &paths[*p]),
            });
        } else if rep.wants_sample() && paths[*p].len() == max_len {
            rep.sample(path_json(kinds[*k].name, &paths[*p]).with(
                "app_hash",
                J::s(out.finalize.as_ref().map(|f| f.app_hash.clone()).unwrap_or_default()),
            ));
        }
    }
    rep.add("distinct_outcomes", distinct.len());
    rep.assume("hash-map iteration order inside the application is sampled (each path runs in its own App), not enumerated");
    rep.assume("every path starts from an identically built chain (same genesis, same setup blocks); equality of their app hashes on the sync path is part of the check");
    rep.finish();
}

fn compare(base: &PathOutcome, got: &PathOutcome) -> Option<(String, String, String)> {
    match (&base.finalize, &got.finalize) {
        (Ok(b), Ok(g)) => {
            if b.app_hash != g.app_hash {
                let keys = b.committed.diff_keys(&g.committed);
                return Some((
                    "same-result".into(),
                    "app hash depends on the call path".into(),
                    format!("sync path app hash {} vs {}; differing keys {:?}", b.app_hash, g.app_hash, keys.iter().take(6).collect::<Vec<_>>()),
                ));
            }
            if b.tx_results != g.tx_results {
                return Some(("same-result".into(), "tx results depend on the call path".into(), format!("{:?} vs {:?}", b.tx_results, g.tx_results)));
            }
            if b.validator_updates != g.validator_updates || b.consensus_param_updates != g.consensus_param_updates {
                return Some((
                    "same-result".into(),
                    "validator / consensus-parameter updates depend on the call path".into(),
                    format!("{:?} vs {:?}", b.validator_updates, g.validator_updates),
                ));
            }
            if b.followup != g.followup {
                return Some((
                    "same-result".into(),
                    "the next height's result depends on the call path of this height".into(),
                    format!("next block on the sync path {:?} vs {:?}", b.followup, g.followup),
                ));
            }
            if b.committed != g.committed {
                let keys = b.committed.diff_keys(&g.committed);
                let first = keys.first().cloned().unwrap_or_default();
                let raw = first.trim_start_matches("nv:").as_bytes().to_vec();
                let (va, vb) = (b.committed.nonverifiable.get(&raw), g.committed.nonverifiable.get(&raw));
                return Some((
                    "same-result".into(),
                    "committed state depends on the call path".into(),
                    format!(
                        "differing keys {:?}; first: sync={:?} path={:?}",
                        keys.iter().take(6).collect::<Vec<_>>(),
                        va.map(|v| report::hex(v)),
                        vb.map(|v| report::hex(v))
                    ),
                ));
            }
            None
        }
        (Err(b), Err(g)) => {
            // both fail: the block is not executable on any path (not a path dependence)
            let _ = (b, g);
            None
        }
        (Ok(_), Err(g)) => Some((
            "same-success".into(),
            "FinalizeBlock fails on this path but succeeds on the sync path".into(),
            format!("error: {g}"),
        )),
        (Err(b), Ok(_)) => Some((
            "same-success".into(),
            "FinalizeBlock succeeds on this path but fails on the sync path".into(),
            format!("sync path error: {b}"),
        )),
    }
}
