// C15 — Oracle prices need >2/3 validly signed extensions and stay within the reported range.
// Stage `validate`: bounded-exhaustive enumeration of validator power vectors x per-vote kinds x
// last-commit relations through the real `ProposalHandler::validate_proposal`; accepted commits
// are then applied with the real `apply_prices_from_vote_extensions`.
// Stage `median`: every price vector of length 1..=4 over a boundary alphabet through the real
// `calculate_prices_from_vote_extensions`.
#![allow(clippy::all, clippy::pedantic, dead_code, unused_imports)]

use std::collections::{
    BTreeMap,
    BTreeSet,
};

use astria_core::{
    crypto::SigningKey,
    generated::price_feed::abci::v2::OracleVoteExtension as RawOracleVoteExtension,
    oracles::price_feed::{
        market_map::v2::{
            Market,
            MarketMap,
            Ticker,
        },
        oracle::v2::{
            CurrencyPairState,
            QuotePrice,
        },
        types::v2::{
            CurrencyPair,
            CurrencyPairId,
            CurrencyPairNonce,
            Price,
        },
    },
    protocol::{
        price_feed::v1::{
            CurrencyPairInfo,
            ExtendedCommitInfoWithCurrencyPairMapping,
        },
        transaction::v1::action::ValidatorUpdate,
    },
    Timestamp,
};
use cnidarium::{
    Snapshot,
    StateDelta,
    TempStorage,
};
use indexmap::IndexMap;
use prost::Message as _;
use tendermint::abci::types::{
    BlockSignatureInfo::Flag,
    CommitInfo,
    ExtendedCommitInfo,
    ExtendedVoteInfo,
    Validator,
    VoteInfo,
};
use tendermint::block::BlockIdFlag;
use tendermint_proto::v0_38::types::CanonicalVoteExtension;

use super::{
    block_on,
    engine::{
        json::J,
        report::{
            self,
            catch_quiet,
            Finding,
            Report,
            Tier,
        },
        wide::Wide,
    },
};
use crate::{
    address::StateWriteExt as _,
    app::{
        vote_extension::{
            apply_prices_from_vote_extensions,
            ProposalHandler,
        },
        StateWriteExt as _,
    },
    authority::StateWriteExt as _,
    oracles::price_feed::{
        market_map::state_ext::StateWriteExt as _,
        oracle::state_ext::{
            StateReadExt as _,
            StateWriteExt as _,
        },
    },
};

const CHAIN_ID: &str = "verif-0";
const HEIGHT: u64 = 9; // the block being proposed; extensions were signed at HEIGHT-1
const ROUND: u16 = 1;

fn vkey(i: usize) -> SigningKey {
    SigningKey::from([0x30 + i as u8; 32])
}

fn pair(i: u64) -> (CurrencyPair, CurrencyPairId) {
    let name = ["ETH/USD", "BTC/USD"][i as usize];
    (name.parse().unwrap(), CurrencyPairId::new(i))
}

async fn base_state(storage: &TempStorage) -> StateDelta<Snapshot> {
    let mut state = StateDelta::new(storage.latest_snapshot());
    state.put_chain_id_and_revision_number(CHAIN_ID.try_into().unwrap()).unwrap();
    state.put_base_prefix("astria".to_string()).unwrap();
    for i in 0..4 {
        state
            .put_validator(&ValidatorUpdate {
                power: 1,
                verification_key: vkey(i).verification_key(),
                name: format!("v{i}").parse().unwrap(),
            })
            .unwrap();
    }
    let mut market_map = MarketMap {
        markets: IndexMap::new(),
    };
    for i in 0..2 {
        let (p, id) = pair(i);
        state
            .put_currency_pair_state(
                p.clone(),
                CurrencyPairState {
                    price: Some(QuotePrice {
                        price: Price::new(1_000_000),
                        block_timestamp: Timestamp {
                            seconds: 4,
                            nanos: 5,
                        },
                        block_height: 1,
                    }),
                    nonce: CurrencyPairNonce::new(1),
                    id,
                },
            )
            .unwrap();
        market_map.markets.insert(
            p.to_string(),
            Market {
                ticker: Ticker {
                    currency_pair: p,
                    decimals: 6,
                    min_provider_count: 0,
                    enabled: true,
                    metadata_json: String::new(),
                },
                provider_configs: Vec::new(),
            },
        );
    }
    state.put_num_currency_pairs(2).unwrap();
    state.put_market_map(market_map).unwrap();
    state
}

fn extension_bytes(prices: &[(u64, i128)]) -> Vec<u8> {
    let mut map = BTreeMap::new();
    for (id, p) in prices {
        map.insert(*id, bytes::Bytes::copy_from_slice(&p.to_be_bytes()));
    }
    RawOracleVoteExtension {
        prices: map,
    }
    .encode_to_vec()
}

fn sign_extension(k: &SigningKey, ext: &[u8], height: u64, round: u16, chain: &str) -> tendermint::Signature {
    let msg = CanonicalVoteExtension {
        extension: ext.to_vec(),
        height: i64::try_from(height - 1).unwrap(),
        round: i64::from(round),
        chain_id: chain.to_string(),
    }
    .encode_length_delimited_to_vec();
    k.sign(&msg).to_bytes().to_vec().try_into().unwrap()
}

#[derive(Clone, Copy, Debug, PartialEq, Eq, PartialOrd, Ord, Hash)]
enum Vote {
    Valid,
    Absent,
    Nil,
    /// signed by the validator's own key, but over a different extension
    ForgedExtension,
    /// signed by another validator's key
    SignedByOther,
    /// signed for another height
    OtherHeight,
    /// commit flag, no signature
    MissingSignature,
    /// nil flag carrying an extension
    NilWithExtension,
    /// the slot repeats the next validator's (valid) vote
    DuplicateOfNext,
    /// validly signed by a key that is not in the validator set
    UnknownValidator,
    /// three prices although only two pairs exist
    TooManyPairs,
}

const VOTES: &[Vote] = &[
    Vote::Valid,
    Vote::Absent,
    Vote::Nil,
    Vote::ForgedExtension,
    Vote::SignedByOther,
    Vote::DuplicateOfNext,
    Vote::MissingSignature,
    Vote::OtherHeight,
    Vote::NilWithExtension,
    Vote::UnknownValidator,
    Vote::TooManyPairs,
];

#[derive(Clone, Copy, Debug, PartialEq, Eq, Hash)]
enum LastCommit {
    Matching,
    OtherRound,
    OneVoteFewer,
    PowerOfFirstDiffers,
    FlagOfFirstDiffers,
}

const LAST_COMMITS: &[LastCommit] = &[
    LastCommit::Matching,
    LastCommit::OtherRound,
    LastCommit::OneVoteFewer,
    LastCommit::PowerOfFirstDiffers,
    LastCommit::FlagOfFirstDiffers,
];

#[derive(Clone, Debug)]
struct Case {
    powers: Vec<u64>,
    votes: Vec<Vote>,
    last: LastCommit,
}

impl Case {
    fn json(&self) -> J {
        J::obj()
            .with("kind", J::s("validate"))
            .with("powers", J::arr(self.powers.iter().map(|p| J::i(*p))))
            .with("votes", J::arr(self.votes.iter().map(|v| J::s(format!("{v:?}")))))
            .with("last_commit", J::s(format!("{:?}", self.last)))
    }

    fn from_json(j: &J) -> Case {
        Case {
            powers: j.get("powers").and_then(J::as_arr).unwrap().iter().map(|p| p.as_int().unwrap() as u64).collect(),
            votes: j
                .get("votes")
                .and_then(J::as_arr)
                .unwrap()
                .iter()
                .map(|v| *VOTES.iter().find(|x| format!("{x:?}") == v.as_str().unwrap()).unwrap())
                .collect(),
            last: *LAST_COMMITS
                .iter()
                .find(|x| Some(format!("{x:?}").as_str()) == j.get("last_commit").and_then(J::as_str))
                .unwrap(),
        }
    }

    fn price_of(i: usize) -> i128 {
        [100, 103, 97, 250][i]
    }

    fn build(&self) -> (ExtendedCommitInfoWithCurrencyPairMapping, CommitInfo) {
        let n = self.powers.len();
        let outsider = SigningKey::from([0x77; 32]);
        let mut votes = Vec::new();
        for (i, kind) in self.votes.iter().enumerate() {
            let k = vkey(i);
            let ext = extension_bytes(&[(0, Self::price_of(i)), (1, Self::price_of(i) * 3)]);
            let me = Validator {
                address: k.address_bytes(),
                power: u32::try_from(self.powers[i]).unwrap().into(),
            };
            let commit = |validator: Validator, ext: Vec<u8>, sig: Option<tendermint::Signature>| ExtendedVoteInfo {
                validator,
                sig_info: Flag(BlockIdFlag::Commit),
                vote_extension: ext.into(),
                extension_signature: sig,
            };
            votes.push(match kind {
                Vote::Valid => commit(me, ext.clone(), Some(sign_extension(&k, &ext, HEIGHT, ROUND, CHAIN_ID))),
                Vote::Absent => ExtendedVoteInfo {
                    validator: me,
                    sig_info: Flag(BlockIdFlag::Absent),
                    vote_extension: vec![].into(),
                    extension_signature: None,
                },
                Vote::Nil => ExtendedVoteInfo {
                    validator: me,
                    sig_info: Flag(BlockIdFlag::Nil),
                    vote_extension: vec![].into(),
                    extension_signature: None,
                },
                Vote::ForgedExtension => {
                    let other = extension_bytes(&[(0, 1), (1, 1)]);
                    commit(me, ext.clone(), Some(sign_extension(&k, &other, HEIGHT, ROUND, CHAIN_ID)))
                }
                Vote::SignedByOther => commit(me, ext.clone(), Some(sign_extension(&vkey((i + 1) % 4), &ext, HEIGHT, ROUND, CHAIN_ID))),
                Vote::OtherHeight => commit(me, ext.clone(), Some(sign_extension(&k, &ext, HEIGHT + 1, ROUND, CHAIN_ID))),
                Vote::MissingSignature => commit(me, ext.clone(), None),
                Vote::NilWithExtension => ExtendedVoteInfo {
                    validator: me,
                    sig_info: Flag(BlockIdFlag::Nil),
                    vote_extension: ext.clone().into(),
                    extension_signature: None,
                },
                Vote::DuplicateOfNext => {
                    let j = (i + 1) % n;
                    let kj = vkey(j);
                    let extj = extension_bytes(&[(0, Self::price_of(j)), (1, Self::price_of(j) * 3)]);
                    commit(
                        Validator {
                            address: kj.address_bytes(),
                            power: u32::try_from(self.powers[j]).unwrap().into(),
                        },
                        extj.clone(),
                        Some(sign_extension(&kj, &extj, HEIGHT, ROUND, CHAIN_ID)),
                    )
                }
                Vote::UnknownValidator => commit(
                    Validator {
                        address: outsider.address_bytes(),
                        power: u32::try_from(self.powers[i]).unwrap().into(),
                    },
                    ext.clone(),
                    Some(sign_extension(&outsider, &ext, HEIGHT, ROUND, CHAIN_ID)),
                ),
                Vote::TooManyPairs => {
                    let big = extension_bytes(&[(0, 5), (1, 6), (2, 7)]);
                    commit(me, big.clone(), Some(sign_extension(&k, &big, HEIGHT, ROUND, CHAIN_ID)))
                }
            });
        }
        let eci = ExtendedCommitInfo {
            round: ROUND.into(),
            votes: votes.clone(),
        };
        let mut last_votes: Vec<VoteInfo> = votes
            .iter()
            .map(|v| VoteInfo {
                validator: v.validator.clone(),
                sig_info: v.sig_info,
            })
            .collect();
        let mut last_round = ROUND;
        match self.last {
            LastCommit::Matching => {}
            LastCommit::OtherRound => last_round += 1,
            LastCommit::OneVoteFewer => {
                last_votes.pop();
            }
            LastCommit::PowerOfFirstDiffers => {
                last_votes[0].validator.power = (u32::try_from(self.powers[0]).unwrap() + 1).into();
            }
            LastCommit::FlagOfFirstDiffers => {
                last_votes[0].sig_info = if last_votes[0].sig_info == Flag(BlockIdFlag::Commit) {
                    Flag(BlockIdFlag::Nil)
                } else {
                    Flag(BlockIdFlag::Commit)
                };
            }
        }
        let mapping: IndexMap<CurrencyPairId, CurrencyPairInfo> = (0..2)
            .map(|i| {
                let (p, id) = pair(i);
                (
                    id,
                    CurrencyPairInfo {
                        currency_pair: p,
                        decimals: 6,
                    },
                )
            })
            .collect();
        (
            ExtendedCommitInfoWithCurrencyPairMapping::new(eci, mapping),
            CommitInfo {
                round: last_round.into(),
                votes: last_votes,
            },
        )
    }

    /// Reference reading of the property's conditions.
    fn reference_ok(&self) -> bool {
        let n = self.powers.len();
        // matches the previous height's commit
        let matches_last = match self.last {
            LastCommit::Matching => true,
            LastCommit::OtherRound | LastCommit::OneVoteFewer | LastCommit::PowerOfFirstDiffers => false,
            // a vote pruned to (absent, empty, unsigned) need not repeat the flag
            LastCommit::FlagOfFirstDiffers => self.votes[0] == Vote::Absent,
        };
        if !matches_last {
            return false;
        }
        let mut seen = BTreeSet::new();
        let mut contributed: u128 = 0;
        let total: u128 = self
            .votes
            .iter()
            .enumerate()
            .map(|(i, v)| u128::from(if *v == Vote::DuplicateOfNext { self.powers[(i + 1) % n] } else { self.powers[i] }))
            .sum();
        for (i, v) in self.votes.iter().enumerate() {
            let (who, power) = match v {
                Vote::DuplicateOfNext => ((i + 1) % n, self.powers[(i + 1) % n]),
                Vote::UnknownValidator => (99, self.powers[i]),
                _ => (i, self.powers[i]),
            };
            if !seen.insert(who) {
                return false;
            }
            match v {
                Vote::Valid | Vote::DuplicateOfNext => contributed += u128::from(power),
                Vote::Absent | Vote::Nil => {}
                // every other kind is an extension that is not validly signed by its validator,
                // or an ill-formed vote
                _ => return false,
            }
        }
        3 * contributed > 2 * total
    }
}

fn judge(rep: &mut Report, storage: &TempStorage, base: &mut StateDelta<Snapshot>, case: &Case) {
    rep.add("evaluations", 1);
    let (eci, last) = case.build();
    let state = base.fork();
    let accepted = match catch_quiet(std::panic::AssertUnwindSafe(|| {
        block_on(ProposalHandler::validate_proposal(&state, HEIGHT, &last, &eci)).is_ok()
    })) {
        Ok(a) => a,
        Err((msg, loc)) => {
            rep.finding(Finding {
                clause: "validate-total".into(),
                signature: format!("panic: {msg}"),
                detail: format!("validate_proposal panicked at {loc}: {msg}"),
                case: case.json(),
            });
            return;
        }
    };
    let want = case.reference_ok();
    let honest = case.votes.iter().all(|v| *v == Vote::Valid) && case.last == LastCommit::Matching;
    if accepted {
        rep.add("accepted", 1);
    }
    if case.votes.iter().any(|v| *v == Vote::Valid) && !honest {
        rep.add("distinct_nontrivial", 1);
    }
    if accepted && !want {
        let why = if case.last != LastCommit::Matching && !(case.last == LastCommit::FlagOfFirstDiffers && case.votes[0] == Vote::Absent) {
            "accepted although it does not match the last commit"
        } else if case.votes.iter().any(|v| !matches!(v, Vote::Valid | Vote::Absent | Vote::Nil | Vote::DuplicateOfNext)) {
            "accepted with an extension not validly signed by its validator"
        } else if case.votes.iter().any(|v| *v == Vote::DuplicateOfNext) {
            "accepted with a validator listed twice"
        } else {
            "accepted with contributing power <= 2/3 of listed power"
        };
        rep.finding(Finding {
            clause: "validate-only-if".into(),
            signature: why.into(),
            detail: format!("validate_proposal accepted {:?} powers {:?} last commit {:?}", case.votes, case.powers, case.last),
            case: case.json(),
        });
        return;
    }
    if honest && !accepted {
        rep.finding(Finding {
            clause: "validate-nonvacuous".into(),
            signature: "honest full extended commit rejected".into(),
            detail: format!("powers {:?}", case.powers),
            case: case.json(),
        });
        return;
    }
    if accepted {
        // apply: every published price within [min, max] of the prices reported for the pair
        let mut delta = base.fork();
        let r = block_on(apply_prices_from_vote_extensions(
            &mut delta,
            &eci,
            tendermint::Time::from_unix_timestamp(1_700_000_000, 0).unwrap().into(),
            HEIGHT,
        ));
        if let Err(e) = r {
            rep.finding(Finding {
                clause: "apply-total".into(),
                signature: "apply fails on an accepted extended commit".into(),
                detail: format!("{e:?}"),
                case: case.json(),
            });
            return;
        }
        for pid in 0..2u64 {
            let mult: i128 = if pid == 0 { 1 } else { 3 };
            let reported: Vec<i128> = case
                .votes
                .iter()
                .enumerate()
                .filter_map(|(i, v)| match v {
                    Vote::Valid => Some(Case::price_of(i) * mult),
                    Vote::DuplicateOfNext => Some(Case::price_of((i + 1) % case.powers.len()) * mult),
                    _ => None,
                })
                .collect();
            let stored = block_on(delta.get_currency_pair_state(&pair(pid).0)).ok().flatten().and_then(|s| s.price).map(|q| q.price.get());
            if let (Some(lo), Some(hi), Some(p)) = (reported.iter().min(), reported.iter().max(), stored) {
                if p < *lo || p > *hi {
                    rep.finding(Finding {
                        clause: "price-in-range".into(),
                        signature: "published price outside the reported range".into(),
                        detail: format!("pair {pid}: published {p}, reported {reported:?}"),
                        case: case.json(),
                    });
                }
            }
        }
        if rep.wants_sample() && !honest {
            rep.sample(case.json().with("accepted", J::Bool(true)));
        }
    }
    let _ = storage;
}

fn odometer(n: usize, base: usize, mut f: impl FnMut(&[usize])) {
    let mut idx = vec![0usize; n];
    loop {
        f(&idx);
        let mut p = 0;
        while p < n {
            idx[p] += 1;
            if idx[p] < base {
                break;
            }
            idx[p] = 0;
            p += 1;
        }
        if p == n {
            break;
        }
    }
}

#[test]
fn verif_c15_validate() {
    let mut rep = Report::new("C15", "validate");
    let storage = block_on(TempStorage::new()).unwrap();
    let mut base = block_on(base_state(&storage));
    if let Some(j) = report::load_replay("C15", "validate") {
        let case = Case::from_json(&j);
        judge(&mut rep, &storage, &mut base, &case);
        let mut again = Report::new("C15", "validate");
        judge(&mut again, &storage, &mut base, &case);
        assert_eq!(rep.n_findings(), again.n_findings(), "uncontrolled nondeterminism");
        rep.finish();
        return;
    }
    let thorough = report::tier() == Tier::Thorough;
    let power_alphabet: &[u64] = if thorough { &[1, 2, 3, 5] } else { &[1, 2, 3] };
    let vote_alphabet: &[Vote] = if thorough { VOTES } else { &VOTES[..7] };
    rep.rule(&format!(
        "every validator set of 1..=4 validators with listed powers from {power_alphabet:?} x every per-vote kind from \
         {vote_alphabet:?} x last-commit relation (matching; for the all-valid and each single-deviation assignment also other \
         round, one vote fewer, power differs, flag differs), through the real ProposalHandler::validate_proposal, then \
         apply_prices_from_vote_extensions on acceptance; oracle: accepted => matches last commit, every commit-flag \
         extension validly signed by its attributed stored validator, no validator twice, 3 x contributing > 2 x listed \
         power; honest full commit accepted; empty extended commit accepted; published price within reported range"
    ));
    let mut work: Vec<Vec<u64>> = Vec::new();
    for n in 1..=4usize {
        odometer(n, power_alphabet.len(), |pi| work.push(pi.iter().map(|i| power_alphabet[*i]).collect()));
    }
    let next = std::sync::atomic::AtomicUsize::new(0);
    let partials: std::sync::Mutex<Vec<Report>> = std::sync::Mutex::new(Vec::new());
    std::thread::scope(|scope| {
        for _ in 0..report::workers() {
            scope.spawn(|| {
                let storage = block_on(TempStorage::new()).unwrap();
                let mut base = block_on(base_state(&storage));
                let mut local = Report::new("C15", "validate");
                loop {
                    let i = next.fetch_add(1, std::sync::atomic::Ordering::Relaxed);
                    if i >= work.len() {
                        break;
                    }
                    let powers = &work[i];
                    odometer(powers.len(), vote_alphabet.len(), |vi| {
                        let votes: Vec<Vote> = vi.iter().map(|i| vote_alphabet[*i]).collect();
                        let deviations = votes.iter().filter(|v| **v != Vote::Valid).count();
                        let lasts: &[LastCommit] = if deviations <= 1 { LAST_COMMITS } else { &LAST_COMMITS[..1] };
                        for last in lasts {
                            judge(
                                &mut local,
                                &storage,
                                &mut base,
                                &Case {
                                    powers: powers.clone(),
                                    votes: votes.clone(),
                                    last: *last,
                                },
                            );
                        }
                    });
                }
                partials.lock().unwrap().push(local);
            });
        }
    });
    for r in partials.into_inner().unwrap() {
        rep.absorb(r);
    }
    // empty extended commit: always acceptable when the round matches
    for (round_matches, want) in [(true, true), (false, false)] {
        rep.add("evaluations", 1);
        let eci = ExtendedCommitInfoWithCurrencyPairMapping::empty(ROUND.into());
        let last = CommitInfo {
            round: if round_matches { ROUND } else { ROUND + 1 }.into(),
            votes: vec![],
        };
        let state = base.fork();
        let got = block_on(ProposalHandler::validate_proposal(&state, HEIGHT, &last, &eci)).is_ok();
        if got != want && round_matches {
            rep.finding(Finding {
                clause: "empty-acceptable".into(),
                signature: "empty extended commit rejected".into(),
                detail: "an empty extended commit with matching round was rejected".into(),
                case: J::obj().with("kind", J::s("empty")),
            });
        }
    }
    rep.set_extra("power_alphabet", J::arr(power_alphabet.iter().map(|p| J::i(*p))));
    rep.assume("ed25519 verification trusted; validator keys are read from the stored validator set written by the harness");
    rep.finish();
}

#[test]
fn verif_c15_median() {
    let mut rep = Report::new("C15", "median");
    let alphabet: Vec<i128> = vec![i128::MIN, i128::MIN + 1, -3, -2, -1, 0, 1, 2, 3, i128::MAX - 1, i128::MAX];
    let mapping: IndexMap<CurrencyPairId, CurrencyPairInfo> = [(
        CurrencyPairId::new(0),
        CurrencyPairInfo {
            currency_pair: "ETH/USD".parse().unwrap(),
            decimals: 0,
        },
    )]
    .into_iter()
    .collect();
    let run = |prices: &[i128]| -> Result<Option<i128>, (String, String)> {
        let votes = prices
            .iter()
            .enumerate()
            .map(|(i, p)| ExtendedVoteInfo {
                validator: Validator {
                    address: [i as u8; 20],
                    power: 1u32.into(),
                },
                sig_info: Flag(BlockIdFlag::Commit),
                vote_extension: extension_bytes(&[(0, *p)]).into(),
                extension_signature: None,
            })
            .collect();
        let eci = ExtendedCommitInfo {
            round: 0u16.into(),
            votes,
        };
        catch_quiet(std::panic::AssertUnwindSafe(|| {
            astria_core::oracles::price_feed::utils::calculate_prices_from_vote_extensions(&eci, &mapping)
                .ok()
                .and_then(|v| v.first().map(|p| p.price().get()))
        }))
    };
    let mut check = |rep: &mut Report, prices: &[i128]| {
        rep.add("evaluations", 1);
        let lo = *prices.iter().min().unwrap();
        let hi = *prices.iter().max().unwrap();
        if lo != hi {
            rep.add("distinct_nontrivial", 1);
        }
        let case = J::obj().with("kind", J::s("median")).with("prices", J::arr(prices.iter().map(|p| J::s(p.to_string()))));
        match run(prices) {
            Err((msg, loc)) => rep.finding(Finding {
                clause: "median-total".into(),
                signature: format!("panic: {msg}"),
                detail: format!("prices {prices:?}: panic at {loc}"),
                case,
            }),
            Ok(None) => rep.finding(Finding {
                clause: "median-total".into(),
                signature: "no price published".into(),
                detail: format!("prices {prices:?}"),
                case,
            }),
            Ok(Some(m)) => {
                if m < lo || m > hi {
                    let both_negative_odd = prices.len() % 2 == 0;
                    rep.finding(Finding {
                        clause: "price-in-range".into(),
                        signature: format!(
                            "median outside [min, max] ({} prices)",
                            if both_negative_odd { "even number of" } else { "odd number of" }
                        ),
                        detail: format!("prices {prices:?}: published {m}"),
                        case,
                    });
                } else if rep.wants_sample() && prices.len() == 4 && lo < 0 && hi > 0 {
                    rep.sample(case.with("median", J::s(m.to_string())));
                }
            }
        }
    };
    if let Some(j) = report::load_replay("C15", "median") {
        let prices: Vec<i128> = j.get("prices").and_then(J::as_arr).unwrap().iter().map(|p| p.as_str().unwrap().parse().unwrap()).collect();
        check(&mut rep, &prices);
        rep.finish();
        return;
    }
    rep.rule(&format!(
        "every price vector of length 1..=4 over {:?} (one vote extension per price) through the real \
         calculate_prices_from_vote_extensions; oracle min <= published <= max, no panic",
        alphabet
    ));
    for len in 1..=4usize {
        odometer(len, alphabet.len(), |idx| {
            let prices: Vec<i128> = idx.iter().map(|i| alphabet[*i]).collect();
            check(&mut rep, &prices);
        });
    }
    rep.finish();
}
