// C06 — Honest proposals are always accepted; malformed or over-limit ones rejected.
// Every mempool content (bounded subsets / insertion orders of a transaction alphabet) x every
// max_tx_bytes boundary of the resulting proposal goes through the real CheckTx ->
// PrepareProposal on one node and the real ProcessProposal on another; every single mutation of
// an honest proposal from a by-construction-invalid menu must be rejected.
#![allow(clippy::all, clippy::pedantic, dead_code, unused_imports)]

use std::collections::{
    BTreeMap,
    BTreeSet,
};

use astria_core::{
    crypto::SigningKey,
    protocol::transaction::v1::{
        action::{
            FeeChange,
            InitBridgeAccount,
            SudoAddressChange,
        },
        Action,
        Transaction,
    },
    Protobuf as _,
};
use bytes::Bytes;
use prost::Message as _;

use super::{
    addr,
    blevel::{
        commit_info_of,
        extended_commit,
        Proposal,
    },
    block_on,
    engine::{
        json::J,
        report::{
            self,
            Finding,
            Report,
            Tier,
        },
    },
    r1,
    r2,
    r3,
    sign_tx,
    tlevel::{
        self,
        rollup_data,
        transfer,
        unlock,
    },
    Chain,
    BR1,
    DAVE,
    EVE,
    W,
};
use crate::{
    mempool::Mempool,
    test_utils::{
        nria,
        ALICE,
        BOB,
        CAROL,
        SUDO,
    },
};

const SEQUENCED_LIMIT: usize = 256_000;
const INJECTED: usize = 3; // two commitments + extended commit info at these heights

#[derive(Clone)]
struct Tx {
    name: &'static str,
    signer: SigningKey,
    /// nonce offset relative to the signer's committed nonce
    nonce_offset: u32,
    actions: Vec<Action>,
}

fn alphabet() -> Vec<Tx> {
    let n = || -> astria_core::primitive::v1::asset::Denom { nria().into() };
    let t = |name, signer: &SigningKey, nonce_offset, actions| Tx {
        name,
        signer: signer.clone(),
        nonce_offset,
        actions,
    };
    vec![
        t("alice-transfer#0", &ALICE, 0, vec![transfer(&BOB, 10, n(), n())]),
        t("alice-data100k#1", &ALICE, 1, vec![rollup_data(r1(), 100_000)]),
        t("alice-data150k#2", &ALICE, 2, vec![rollup_data(r2(), 150_000)]),
        t("bob-data150k#0", &BOB, 0, vec![rollup_data(r1(), 150_000)]),
        t("bob-data6000#1", &BOB, 1, vec![rollup_data(r3(), 6_000)]),
        // passes CheckTx (the signer only pays the fee) but fails execution: bridge has no funds
        t("w-unlock-overdraw#0", &W, 0, vec![unlock(&BR1, &CAROL, u128::MAX / 2, "x1")]),
        t("w-transfer#1", &W, 1, vec![transfer(&CAROL, 1, n(), n())]),
        t("sudo-feechange#0", &SUDO, 0, vec![tlevel::fee_change_transfer(3, 0)]),
        t("sudo-transfer#1", &SUDO, 1, vec![transfer(&CAROL, 2, n(), n())]),
        t(
            "sudo-sudochange#2",
            &SUDO,
            2,
            vec![Action::SudoAddressChange(SudoAddressChange {
                new_address: addr(&EVE),
            })],
        ),
        t(
            "dave-initbridge#0",
            &DAVE,
            0,
            vec![Action::InitBridgeAccount(InitBridgeAccount {
                rollup_id: r3(),
                asset: nria().into(),
                fee_asset: nria().into(),
                sudo_address: None,
                withdrawer_address: None,
            })],
        ),
        t("carol-transfer#0", &CAROL, 0, vec![transfer(&DAVE, 5, n(), n())]),
    ]
}

struct Node {
    chain: Chain,
}

impl Node {
    async fn new() -> Self {
        Self {
            chain: Chain::universe().await,
        }
    }

    fn reset_mempool(&mut self) {
        let metrics = self.chain.fixture.metrics();
        self.chain.fixture.app.mempool = Mempool::new(metrics, 100, 100);
    }

    async fn signed(&self, tx: &Tx) -> Bytes {
        let base = self.chain.nonce_of(&tx.signer).await;
        sign_tx(&tx.signer, base + tx.nonce_offset, tx.actions.clone()).expect("bundleable")
    }

    async fn propose(&mut self, txs: &[Bytes], max_tx_bytes: i64, priced: bool) -> Result<Proposal, String> {
        self.reset_mempool();
        for b in txs {
            let _ = crate::service::mempool::check_tx(
                b.clone(),
                self.chain.fixture.storage().latest_snapshot(),
                &self.chain.fixture.mempool(),
                self.chain.fixture.metrics(),
            )
            .await;
        }
        let mut p = Proposal {
            txs: vec![],
            eci: extended_commit(self.chain.next_height, if priced { Some([100, 101, 99]) } else { None }),
            height: self.chain.next_height,
            salt: 1,
        };
        let storage = self.chain.fixture.storage();
        let resp = self
            .chain
            .fixture
            .app
            .prepare_proposal(p.prepare_request(max_tx_bytes), storage)
            .await
            .map_err(|e| format!("{e:#}"))?;
        p.txs = resp.txs;
        Ok(p)
    }

    async fn process(&mut self, p: &Proposal) -> Result<(), String> {
        let storage = self.chain.fixture.storage();
        self.chain.fixture.app.process_proposal(p.process_request(), storage).await.map_err(|e| format!("{e:#}"))
    }
}

fn decode(b: &Bytes) -> Option<Transaction> {
    use astria_core::generated::astria::protocol::transaction::v1 as raw;
    Transaction::try_from_raw(raw::Transaction::decode(b.clone()).ok()?).ok()
}

fn sequenced_bytes(tx: &Transaction) -> usize {
    tx.actions()
        .iter()
        .map(|a| match a {
            Action::RollupDataSubmission(r) => r.data.len(),
            _ => 0,
        })
        .sum()
}

/// Structural checks on an honest proposal; returns (clause, signature, detail) on failure.
fn judge_honest(p: &Proposal, max_tx_bytes: i64) -> Option<(String, String, String)> {
    let total: usize = p.txs.iter().map(Bytes::len).sum();
    if total as i64 > max_tx_bytes {
        return Some((
            "within-cometbft-limit".into(),
            "proposal larger than max_tx_bytes".into(),
            format!("proposal has {total} bytes, max_tx_bytes {max_tx_bytes}"),
        ));
    }
    let txs: Vec<Transaction> = p.txs.iter().skip(INJECTED).filter_map(decode).collect();
    if txs.len() + INJECTED != p.txs.len() {
        return Some(("well-formed".into(), "undecodable transaction in an honest proposal".into(), String::new()));
    }
    let seq: usize = txs.iter().map(sequenced_bytes).sum();
    if seq > SEQUENCED_LIMIT {
        return Some((
            "within-sequenced-limit".into(),
            "sequenced data above the limit".into(),
            format!("{seq} bytes of rollup data > {SEQUENCED_LIMIT}"),
        ));
    }
    for w in txs.windows(2) {
        if w[1].group() > w[0].group() {
            return Some((
                "group-order".into(),
                "higher-priority group after a lower one".into(),
                format!("{:?} before {:?}", w[0].group(), w[1].group()),
            ));
        }
    }
    None
}

#[derive(Clone, Debug)]
enum Mutation {
    FlipCommitmentByte(usize),
    FlipTxLastByte(usize),
    FlipTxBodyByte(usize),
    InsertGarbage(usize),
    SwapAdjacent(usize),
    DropDataTx(usize),
    DuplicateTx(usize),
    SwapCommitments,
    DropExtendedCommit,
    DuplicateExtendedCommit,
    AppendOverLimitData,
}

/// Applies `m`; returns `None` if the mutation does not make this particular proposal invalid by
/// construction (then it is not a must-reject case).
fn mutate(p: &Proposal, m: &Mutation, extra_data_tx: &Bytes) -> Option<Proposal> {
    let mut q = p.clone();
    q.salt = 9;
    let n_txs = p.txs.len() - INJECTED;
    match m {
        Mutation::FlipCommitmentByte(i) => {
            let mut b = q.txs[*i].to_vec();
            let last = b.len() - 1;
            b[last] ^= 1;
            q.txs[*i] = b.into();
        }
        Mutation::FlipTxLastByte(i) | Mutation::FlipTxBodyByte(i) => {
            if *i >= n_txs {
                return None;
            }
            let mut b = q.txs[INJECTED + i].to_vec();
            let pos = if matches!(m, Mutation::FlipTxLastByte(_)) { b.len() - 1 } else { b.len() / 2 };
            b[pos] ^= 1;
            // must no longer be a validly signed transaction
            if decode(&Bytes::from(b.clone())).is_some() {
                return None;
            }
            q.txs[INJECTED + i] = b.into();
        }
        Mutation::InsertGarbage(i) => {
            if *i > n_txs {
                return None;
            }
            q.txs.insert(INJECTED + i, Bytes::from_static(b"\xff\xff\xffnot a transaction"));
        }
        Mutation::SwapAdjacent(i) => {
            if i + 1 >= n_txs {
                return None;
            }
            let (a, b) = (decode(&p.txs[INJECTED + i])?, decode(&p.txs[INJECTED + i + 1])?);
            let same_signer = a.verification_key().address_bytes() == b.verification_key().address_bytes();
            let group_violation = a.group() > b.group();
            // invalid by construction only if it breaks nonce order of one signer or group order
            if !(same_signer || group_violation) {
                return None;
            }
            q.txs.swap(INJECTED + i, INJECTED + i + 1);
        }
        Mutation::DropDataTx(i) => {
            if *i >= n_txs || sequenced_bytes(&decode(&p.txs[INJECTED + i])?) == 0 {
                return None;
            }
            // later transactions of the same signer would fail on the nonce anyway; either way invalid
            q.txs.remove(INJECTED + i);
        }
        Mutation::DuplicateTx(i) => {
            if *i >= n_txs {
                return None;
            }
            let t = q.txs[INJECTED + i].clone();
            q.txs.insert(INJECTED + i + 1, t);
        }
        Mutation::SwapCommitments => {
            if q.txs[0] == q.txs[1] {
                return None;
            }
            q.txs.swap(0, 1);
        }
        Mutation::DropExtendedCommit => {
            q.txs.remove(2);
        }
        Mutation::DuplicateExtendedCommit => {
            let t = q.txs[2].clone();
            q.txs.insert(2, t);
        }
        Mutation::AppendOverLimitData => {
            // a valid data transaction that pushes the block over the sequenced-data limit; the
            // commitments are left as they are (so the block is invalid on two counts)
            let seq: usize = p.txs.iter().skip(INJECTED).filter_map(decode).map(|t| sequenced_bytes(&t)).sum();
            let extra = sequenced_bytes(&decode(extra_data_tx)?);
            if seq + extra <= SEQUENCED_LIMIT {
                return None;
            }
            q.txs.push(extra_data_tx.clone());
        }
    }
    Some(q)
}

fn subsets_and_orders(n: usize, max_subset: usize, max_perm: usize) -> Vec<Vec<usize>> {
    fn rec(n: usize, k: usize, start: usize, cur: &mut Vec<usize>, out: &mut Vec<Vec<usize>>) {
        if cur.len() == k {
            out.push(cur.clone());
            return;
        }
        for i in start..n {
            cur.push(i);
            rec(n, k, i + 1, cur, out);
            cur.pop();
        }
    }
    fn perms(items: &[usize]) -> Vec<Vec<usize>> {
        if items.len() <= 1 {
            return vec![items.to_vec()];
        }
        let mut out = Vec::new();
        for i in 0..items.len() {
            let mut rest = items.to_vec();
            let x = rest.remove(i);
            for mut p in perms(&rest) {
                p.insert(0, x);
                out.push(p);
            }
        }
        out
    }
    let mut out = Vec::new();
    for k in 0..=max_subset {
        let mut sets = Vec::new();
        rec(n, k, 0, &mut Vec::new(), &mut sets);
        for s in sets {
            if k <= max_perm {
                out.extend(perms(&s));
            } else {
                out.push(s);
            }
        }
    }
    out
}

struct Worker {
    a: Node,
    b: Node,
    alphabet: Vec<Tx>,
    signed: Vec<Bytes>,
    extra_data_tx: Bytes,
}

impl Worker {
    async fn new() -> Self {
        let a = Node::new().await;
        let b = Node::new().await;
        let alphabet = alphabet();
        let mut signed = Vec::new();
        for t in &alphabet {
            signed.push(a.signed(t).await);
        }
        let extra_data_tx = sign_tx(&EVE, a.chain.nonce_of(&EVE).await, vec![rollup_data(r2(), 200_000)]).unwrap();
        Self {
            a,
            b,
            alphabet,
            signed,
            extra_data_tx,
        }
    }

    fn case_json(&self, order: &[usize], max_tx_bytes: i64, mutation: Option<&Mutation>) -> J {
        let mut j = J::obj()
            .with("priced_extended_commit", J::Bool(false))
            .with("mempool", J::arr(order.iter().map(|i| J::s(self.alphabet[*i].name))))
            .with("max_tx_bytes", J::i(max_tx_bytes));
        if let Some(m) = mutation {
            j = j.with("mutation", J::s(format!("{m:?}")));
        }
        j
    }

    async fn run_case(&mut self, order: &[usize], rep: &mut Report, mutate_too: bool) {
        self.run_case_with(order, rep, mutate_too, false).await;
        if mutate_too && order.len() <= 2 {
            // the same mempool with a real (signed, priced) extended commit: exercises the
            // "extended commit does not fit" fallback at the size boundaries
            self.run_case_with(order, rep, false, true).await;
        }
    }

    async fn run_case_with(&mut self, order: &[usize], rep: &mut Report, mutate_too: bool, priced: bool) {
        let txs: Vec<Bytes> = order.iter().map(|i| self.signed[*i].clone()).collect();
        let big = 2_000_000i64;
        // honest proposal with a generous limit: defines the size boundaries to probe
        let honest = match self.a.propose(&txs, big, priced).await {
            Ok(p) => p,
            Err(e) => {
                rep.add("evaluations", 1);
                rep.finding(Finding {
                    clause: "prepare-succeeds".into(),
                    signature: "prepare_proposal fails with a generous size limit".into(),
                    detail: e,
                    case: self.case_json(order, big, None),
                });
                return;
            }
        };
        let mut limits: BTreeSet<i64> = BTreeSet::new();
        limits.insert(big);
        let mut prefix = 0i64;
        for (k, item) in honest.txs.iter().enumerate() {
            prefix += item.len() as i64;
            if k + 1 >= INJECTED {
                limits.extend([prefix - 1, prefix, prefix + 1]);
            }
        }
        for max_tx_bytes in limits {
            rep.add("evaluations", 1);
            let p = match self.a.propose(&txs, max_tx_bytes, priced).await {
                Ok(p) => p,
                Err(e) => {
                    // allowed only if not even the injected items fit
                    let injected: i64 = honest.txs.iter().take(INJECTED).map(|b| b.len() as i64).sum();
                    // with a priced extended commit the proposer may fall back to an empty one
                    let needed = if priced { injected - honest.txs[2].len() as i64 + 16 } else { injected };
                    if max_tx_bytes >= needed {
                        rep.finding(Finding {
                            clause: "prepare-succeeds".into(),
                            signature: "prepare_proposal fails although the injected items fit".into(),
                            detail: format!("max_tx_bytes {max_tx_bytes}, injected items need {injected}: {e}"),
                            case: self.case_json(order, max_tx_bytes, None),
                        });
                    }
                    continue;
                }
            };
            if p.txs.len() > INJECTED {
                rep.add("distinct_nontrivial", 1);
            }
            if let Some((clause, signature, detail)) = judge_honest(&p, max_tx_bytes) {
                rep.finding(Finding {
                    clause,
                    signature,
                    detail,
                    case: self.case_json(order, max_tx_bytes, None),
                });
                continue;
            }
            if let Err(e) = self.b.process(&p).await {
                rep.finding(Finding {
                    clause: "honest-accepted".into(),
                    signature: "honest proposal rejected by ProcessProposal".into(),
                    detail: format!("{} items: {e}", p.txs.len()),
                    case: self.case_json(order, max_tx_bytes, None),
                });
            } else if rep.wants_sample() && p.txs.len() > INJECTED + 2 {
                rep.sample(self.case_json(order, max_tx_bytes, None).with("proposal_items", J::i(p.txs.len())));
            }
        }
        if !mutate_too {
            return;
        }
        let n_txs = honest.txs.len() - INJECTED;
        let mut menu = vec![
            Mutation::FlipCommitmentByte(0),
            Mutation::FlipCommitmentByte(1),
            Mutation::SwapCommitments,
            Mutation::DropExtendedCommit,
            Mutation::DuplicateExtendedCommit,
            Mutation::AppendOverLimitData,
            Mutation::InsertGarbage(0),
            Mutation::InsertGarbage(n_txs),
        ];
        for i in 0..n_txs {
            menu.extend([
                Mutation::FlipTxLastByte(i),
                Mutation::FlipTxBodyByte(i),
                Mutation::SwapAdjacent(i),
                Mutation::DropDataTx(i),
                Mutation::DuplicateTx(i),
            ]);
        }
        for m in menu {
            let Some(q) = mutate(&honest, &m, &self.extra_data_tx) else {
                continue;
            };
            rep.add("evaluations", 1);
            rep.add("mutations", 1);
            if self.b.process(&q).await.is_ok() {
                let kind = format!("{m:?}");
                let kind = kind.split('(').next().unwrap_or("").to_string();
                rep.finding(Finding {
                    clause: "invalid-rejected".into(),
                    signature: format!("{kind} accepted"),
                    detail: format!("ProcessProposal accepted a proposal mutated by {m:?}"),
                    case: self.case_json(order, 2_000_000, Some(&m)),
                });
            }
        }
    }
}

#[test]
fn verif_c06_proposals() {
    let mut rep = Report::new("C06", "proposals");
    let thorough = report::tier() == Tier::Thorough;
    let n = alphabet().len();
    if let Some(case) = report::load_replay("C06", "proposals") {
        let names: Vec<String> =
            case.get("mempool").and_then(J::as_arr).unwrap().iter().map(|x| x.as_str().unwrap().to_string()).collect();
        let alpha = alphabet();
        let order: Vec<usize> = names.iter().map(|nm| alpha.iter().position(|t| t.name == nm).unwrap()).collect();
        let mut w = block_on(Worker::new());
        block_on(w.run_case(&order, &mut rep, true));
        rep.finish();
        return;
    }
    let (max_subset, max_perm) = if thorough { (4, 3) } else { (3, 2) };
    let cases = subsets_and_orders(n, max_subset, max_perm);
    rep.rule(&format!(
        "mempool = every subset of <= {max_subset} of {n} transactions (dependent nonces, 100/150 kB rollup data straddling \
         the 256000-byte limit, a transaction that fails execution, sudo / unbundleable groups), in every insertion order for \
         <= {max_perm}; for each: max_tx_bytes = 2000000 and S_k-1, S_k, S_k+1 for every prefix k of the honest proposal; \
         real CheckTx + PrepareProposal on node A, real ProcessProposal on node B; oracle: prepare succeeds, size and \
         sequenced-data limits, group order, B accepts. Then every applicable mutation from {{flip commitment byte, swap \
         commitments, drop/duplicate extended commit, insert garbage, flip transaction byte, swap adjacent (same signer or group \
         violation), drop data transaction, duplicate transaction, append over-limit data transaction}} must be rejected by B"
    ));
    let next = std::sync::atomic::AtomicUsize::new(0);
    let partials: std::sync::Mutex<Vec<Report>> = std::sync::Mutex::new(Vec::new());
    std::thread::scope(|scope| {
        for _ in 0..report::workers() {
            scope.spawn(|| {
                let mut w = block_on(Worker::new());
                let mut local = Report::new("C06", "proposals");
                loop {
                    let i = next.fetch_add(1, std::sync::atomic::Ordering::Relaxed);
                    if i >= cases.len() {
                        break;
                    }
                    // mutations on sorted (canonical) orders only: the honest proposal is what is mutated
                    let canonical = cases[i].windows(2).all(|p| p[0] < p[1]);
                    block_on(w.run_case(&cases[i], &mut local, canonical));
                }
                partials.lock().unwrap().push(local);
            });
        }
    });
    for r in partials.into_inner().unwrap() {
        rep.absorb(r);
    }
    rep.set_extra("mempool_cases", J::i(cases.len()));
    rep.assume("the proposing and the validating node are separate App instances on identically built chains; CometBFT itself (size check of the decided block, signature of the proposal) is outside the harness");
    rep.finish();
}
