// stub
