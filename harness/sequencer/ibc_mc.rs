// IBC family (C18, and the IBC-carried parts of C04 and C01): explicit-state search over outgoing
// `Ics20Withdrawal` transactions (real CheckedTransaction::new + App::execute_transaction) and
// incoming packets / acknowledgements / timeouts through the real `Ics20Transfer` application
// handlers (check + execute inside a state transaction that is dropped on error, as the relay
// action does), on forks of a real block state with an open channel, connection and client.
#![allow(clippy::all, clippy::pedantic, dead_code, unused_imports)]

use std::{
    collections::{
        BTreeMap,
        BTreeSet,
    },
    sync::{
        Arc,
        Mutex,
    },
};

use astria_core::{
    crypto::SigningKey,
    primitive::v1::{
        asset::Denom,
        Address,
        TransactionId,
    },
    protocol::{
        memos::v1::{
            Ics20TransferDeposit,
            Ics20WithdrawalFromRollup,
        },
        transaction::v1::{
            action::{
                FeeAssetChange,
                Ics20Withdrawal,
                InitBridgeAccount,
            },
            Action,
        },
    },
};
use bytes::Bytes;
use cnidarium::{
    Snapshot,
    StateDelta,
    StateWrite as _,
    Storage,
};
use ibc_types::core::{
    channel::{
        channel::{
            Order,
            State as ChannelState,
        },
        msgs::{
            MsgAcknowledgement,
            MsgRecvPacket,
            MsgTimeout,
        },
        packet::Sequence,
        ChannelEnd,
        ChannelId,
        Counterparty as ChannelCounterparty,
        Packet,
        PortId,
        TimeoutHeight,
    },
    client::{
        ClientId,
        Height,
    },
    commitment::MerkleProof,
    connection::{
        ConnectionEnd,
        ConnectionId,
        State as ConnectionState,
    },
};
use penumbra_ibc::component::{
    app_handler::{
        AppHandlerCheck,
        AppHandlerExecute,
    },
    ChannelStateWriteExt as _,
    ClientStateWriteExt as _,
    ConnectionStateWriteExt as _,
    ConsensusStateWriteExt as _,
};
use penumbra_proto::penumbra::core::component::ibc::v1::FungibleTokenPacketData;

use super::{
    addr,
    asset_key,
    b64,
    block_on,
    block_time,
    dump_state,
    fee2,
    engine::{
        explore::{
            self,
            Config,
            Model,
            Step,
            Violation,
        },
        json::J,
        report::{
            self,
            Finding,
            Report,
            Tier,
        },
        wide::Wide,
    },
    name_of,
    new_app_on,
    r3,
    sign_tx,
    tlevel::{
        self,
        unlock,
    },
    App,
    Chain,
    Dump,
    BR1,
    BR3,
    DAVE,
    EVE,
    W,
};
use crate::{
    accounts::StateWriteExt as _,
    app::StateWriteExt as _,
    bridge::StateReadExt as _,
    checked_transaction::CheckedTransaction,
    ibc::{
        host_interface::AstriaHost,
        ics20_transfer::Ics20Transfer,
        StateWriteExt as _,
    },
    test_utils::{
        dummy_ibc_client_state,
        nria,
        ALICE,
        BOB,
        CAROL,
        SUDO,
    },
};

const COUNTERPARTY_CHANNEL: &str = "channel-7";

fn chan(n: u64) -> ChannelId {
    ChannelId::new(n)
}

/// The foreign asset as it is known on the sequencer after arriving over channel-0.
fn utia_here() -> Denom {
    "transfer/channel-0/utia".parse().unwrap()
}

impl Chain {
    /// Opens `transfer/channel-0` and `transfer/channel-1` (counterparty channel-7) over one
    /// connection with an active client whose latest consensus state is fresh, allows the foreign
    /// asset as a fee asset, and makes BR3 a bridge account for it.
    pub(crate) async fn setup_ibc(&mut self) {
        let client_id = ClientId::default();
        // like test_utils::dummy_ibc_client_state, but with a trusting period that outlasts the
        // few one-second blocks of a run
        let client_state = {
            use ibc_types::lightclients::tendermint::{
                client_state::{
                    AllowUpdate,
                    ClientState,
                },
                TrustThreshold,
            };
            let version = 2;
            ClientState::new(
                ibc_types::core::connection::ChainId::new("test".to_string(), version),
                TrustThreshold::TWO_THIRDS,
                std::time::Duration::from_secs(50_000),
                std::time::Duration::from_secs(64_000),
                std::time::Duration::from_secs(1),
                Height::new(version, 1).unwrap(),
                vec![ibc_proto::ics23::ProofSpec {
                    leaf_spec: None,
                    inner_spec: None,
                    max_depth: 0,
                    min_depth: 0,
                    prehash_key_before_comparison: false,
                }],
                vec![],
                AllowUpdate {
                    after_expiry: true,
                    after_misbehaviour: true,
                },
                None,
            )
            .unwrap()
        };
        let height = client_state.latest_height;
        let mut delta = self.fixture.app.new_state_delta();
        delta.put_client(&client_id, client_state);
        let consensus_state = ibc_types::lightclients::tendermint::ConsensusState::new(
            ibc_types::core::commitment::MerkleRoot {
                hash: vec![1; 32],
            },
            block_time(self.next_height),
            tendermint::Hash::Sha256([2; 32]),
        );
        delta
            .put_verified_consensus_state::<AstriaHost>(height, client_id.clone(), consensus_state)
            .await
            .unwrap();
        let connection_id = ConnectionId::new(0);
        delta
            .put_new_connection(
                &connection_id,
                ConnectionEnd {
                    state: ConnectionState::Open,
                    client_id,
                    ..ConnectionEnd::default()
                },
            )
            .await
            .unwrap();
        for n in [0, 1] {
            delta.put_channel(
                &chan(n),
                &PortId::transfer(),
                ChannelEnd {
                    state: ChannelState::Open,
                    ordering: Order::Unordered,
                    remote: ChannelCounterparty::new(PortId::transfer(), Some(COUNTERPARTY_CHANNEL.parse().unwrap())),
                    connection_hops: vec![connection_id.clone()],
                    ..ChannelEnd::default()
                },
            );
        }
        let storage = self.fixture.storage();
        self.fixture.app.apply_and_commit(delta, storage).await;
        let txs = vec![
            sign_tx(&SUDO, self.nonce_of(&SUDO).await, vec![Action::FeeAssetChange(FeeAssetChange::Addition(utia_here()))])
                .unwrap(),
            sign_tx(
                &BR3,
                self.nonce_of(&BR3).await,
                vec![Action::InitBridgeAccount(InitBridgeAccount {
                    rollup_id: r3(),
                    asset: utia_here(),
                    fee_asset: nria().into(),
                    sudo_address: Some(addr(&SUDO)),
                    withdrawer_address: Some(addr(&W)),
                })],
            )
            .unwrap(),
        ];
        let out = self.run_block(txs).await;
        assert_eq!(out.check_tx_rejected, 0, "ibc setup transactions must pass CheckTx");
        assert!(out.response.tx_results.iter().all(|r| r.code.is_ok()), "ibc setup transactions must execute");
        assert_eq!(out.prepared.len(), 5);
    }
}

// ---------------------------------------------------------------------------------------------
// Alphabet
// ---------------------------------------------------------------------------------------------

fn withdrawal(from_bridge: Option<(&SigningKey, &str)>, return_to: &SigningKey, denom: Denom, amount: u128, channel: u64) -> Action {
    let (memo, bridge_address) = match from_bridge {
        Some((bridge, event)) => (
            serde_json::to_string(&Ics20WithdrawalFromRollup {
                rollup_block_number: 3,
                rollup_withdrawal_event_id: event.to_string(),
                rollup_return_address: "rollup-return".to_string(),
                memo: String::new(),
            })
            .unwrap(),
            Some(addr(bridge)),
        ),
        None => (String::new(), None),
    };
    Action::Ics20Withdrawal(Ics20Withdrawal {
        amount,
        denom,
        destination_chain_address: "addr-on-counterparty".to_string(),
        return_address: addr(return_to),
        timeout_height: Height::new(10, 1).unwrap(),
        timeout_time: u64::MAX / 2,
        source_channel: chan(channel),
        fee_asset: nria().into(),
        memo,
        bridge_address,
        use_compat_address: false,
    })
}

#[derive(Clone, Debug)]
enum Incoming {
    /// a packet from the counterparty: (denom as the counterparty names it, amount, receiver, memo, channel here)
    Recv {
        denom: String,
        amount: u128,
        receiver: String,
        memo: String,
        channel: u64,
    },
    /// error acknowledgement / timeout of the k-th most recent successful withdrawal of this path
    AckErrOfSent(usize),
    AckOkOfSent(usize),
    TimeoutOfSent(usize),
    /// error acknowledgement for a packet this chain never sent
    AckErrInvented {
        denom: String,
        amount: u128,
        sender: String,
        channel: u64,
    },
}

#[derive(Clone, Debug)]
struct Spec {
    name: String,
    kind: Kind,
}

#[derive(Clone, Debug)]
enum Kind {
    Tx {
        signer: SigningKey,
        actions: Vec<Action>,
    },
    In(Incoming),
}

fn alphabet(thorough: bool) -> Vec<Spec> {
    let native: Denom = nria().into();
    let native_ibc_form: Denom = nria().to_ibc_prefixed().into();
    let tx = |name: &str, signer: &SigningKey, actions: Vec<Action>| Spec {
        name: format!("tx {}:{name}", name_of(&signer.address_bytes())),
        kind: Kind::Tx {
            signer: signer.clone(),
            actions,
        },
    };
    let inc = |name: &str, i: Incoming| Spec {
        name: format!("in {name}"),
        kind: Kind::In(i),
    };
    let returning = format!("transfer/{COUNTERPARTY_CHANNEL}/nria");
    let deposit_memo = serde_json::to_string(&Ics20TransferDeposit {
        rollup_deposit_address: "rollup-addr".to_string(),
    })
    .unwrap();
    let mut v = vec![
        tx("withdraw-100-nria-ch0", &ALICE, vec![withdrawal(None, &ALICE, native.clone(), 100, 0)]),
        tx("withdraw-100-nria-ibc-form-ch0", &BOB, vec![withdrawal(None, &BOB, native_ibc_form.clone(), 100, 0)]),
        tx("withdraw-40-nria-ch1", &CAROL, vec![withdrawal(None, &CAROL, native.clone(), 40, 1)]),
        tx("bridge-withdraw-30-i1-ch0", &W, vec![withdrawal(Some((&BR1, "i1")), &BR1, native.clone(), 30, 0)]),
        tx("unlock-br1-10-i1", &W, vec![unlock(&BR1, &CAROL, 10, "i1")]),
        tx("withdraw-25-utia-ch0", &ALICE, vec![withdrawal(None, &ALICE, utia_here(), 25, 0)]),
        // a foreign asset forwarded over a channel it did not arrive on (this chain is the source zone
        // for that hop: escrow, multi-segment trace), and coming back over that channel
        tx("withdraw-10-utia-ch1", &ALICE, vec![withdrawal(None, &ALICE, utia_here(), 10, 1)]),
        inc("recv 10 returning forwarded utia -> ALICE ch1", Incoming::Recv {
            denom: format!("transfer/{COUNTERPARTY_CHANNEL}/{}", utia_here()),
            amount: 10,
            receiver: addr(&ALICE).to_string(),
            memo: String::new(),
            channel: 1,
        }),
        // a second sequencer-origin fee asset that leaves, is delisted by the sudo address, and comes back
        tx("withdraw-30-fee2-ch0", &ALICE, vec![withdrawal(None, &ALICE, fee2(), 30, 0)]),
        tx("delist-fee2", &SUDO, vec![Action::FeeAssetChange(astria_core::protocol::transaction::v1::action::FeeAssetChange::Removal(fee2()))]),
        inc("recv 20 returning fee2 -> ALICE ch0", Incoming::Recv {
            denom: format!("transfer/{COUNTERPARTY_CHANNEL}/fee2"),
            amount: 20,
            receiver: addr(&ALICE).to_string(),
            memo: String::new(),
            channel: 0,
        }),
        // authority: a withdrawal naming somebody else's plain account / a bridge the signer does not control
        tx("withdraw-15-from-ALICE-as-bridge-ch0", &BOB, vec![withdrawal(Some((&ALICE, "i7")), &BOB, native.clone(), 15, 0)]),
        tx("bridge-withdraw-15-i8-ch0-not-withdrawer", &DAVE, vec![withdrawal(Some((&BR1, "i8")), &DAVE, native.clone(), 15, 0)]),
        inc("recv 60 returning nria -> ALICE ch0", Incoming::Recv {
            denom: returning.clone(),
            amount: 60,
            receiver: addr(&ALICE).to_string(),
            memo: String::new(),
            channel: 0,
        }),
        inc("recv 1000 returning nria -> BR1 (deposit memo) ch0", Incoming::Recv {
            denom: returning.clone(),
            amount: 1000,
            receiver: addr(&BR1).to_string(),
            memo: deposit_memo.clone(),
            channel: 0,
        }),
        inc("recv 20 returning nria -> BR1 (deposit memo) ch0", Incoming::Recv {
            denom: returning.clone(),
            amount: 20,
            receiver: addr(&BR1).to_string(),
            memo: deposit_memo.clone(),
            channel: 0,
        }),
        inc("recv 50 utia -> ALICE ch0", Incoming::Recv {
            denom: "utia".to_string(),
            amount: 50,
            receiver: addr(&ALICE).to_string(),
            memo: String::new(),
            channel: 0,
        }),
        inc("recv 8 utia -> BR3 (deposit memo) ch0", Incoming::Recv {
            denom: "utia".to_string(),
            amount: 8,
            receiver: addr(&BR3).to_string(),
            memo: deposit_memo.clone(),
            channel: 0,
        }),
        inc("ack-error of last sent", Incoming::AckErrOfSent(0)),
        inc("timeout of last sent", Incoming::TimeoutOfSent(0)),
        inc("ack-error of invented 70 nria ch0", Incoming::AckErrInvented {
            denom: "nria".to_string(),
            amount: 70,
            sender: addr(&DAVE).to_string(),
            channel: 0,
        }),
    ];
    if thorough {
        v.extend([
            inc("recv 5 returning nria -> BR1 (bad memo) ch0", Incoming::Recv {
                denom: returning.clone(),
                amount: 5,
                receiver: addr(&BR1).to_string(),
                memo: "not json".to_string(),
                channel: 0,
            }),
            inc("recv 5 utia -> BR1 (wrong bridge asset) ch0", Incoming::Recv {
                denom: "utia".to_string(),
                amount: 5,
                receiver: addr(&BR1).to_string(),
                memo: deposit_memo.clone(),
                channel: 0,
            }),
            inc("recv 5 returning nria -> garbage receiver ch0", Incoming::Recv {
                denom: returning.clone(),
                amount: 5,
                receiver: "not-an-address".to_string(),
                memo: String::new(),
                channel: 0,
            }),
            inc("recv 60 returning nria -> ALICE ch1", Incoming::Recv {
                denom: returning.clone(),
                amount: 60,
                receiver: addr(&ALICE).to_string(),
                memo: String::new(),
                channel: 1,
            }),
            inc("recv 9 other (not a fee asset) -> ALICE ch0", Incoming::Recv {
                denom: "uother".to_string(),
                amount: 9,
                receiver: addr(&ALICE).to_string(),
                memo: String::new(),
                channel: 0,
            }),
            inc("ack-ok of last sent", Incoming::AckOkOfSent(0)),
            inc("ack-error of second-last sent", Incoming::AckErrOfSent(1)),
        ]);
    }
    v
}

// ---------------------------------------------------------------------------------------------
// Model
// ---------------------------------------------------------------------------------------------

#[derive(Clone, Debug, PartialEq, Eq, Hash)]
struct Sent {
    data: Vec<u8>,
    channel: u64,
    /// an acknowledgement or timeout has been delivered (each packet resolves at most once)
    resolved: bool,
}

struct Node {
    delta: Mutex<StateDelta<Snapshot>>,
    dump: Arc<Dump>,
    /// most recent first
    sent: Vec<Sent>,
    /// reference escrow ledger: (channel, asset key) -> amount, for sequencer-origin assets
    ledger: BTreeMap<(String, String), Wide>,
    recv_seq: u64,
}

struct IbcModel {
    property: &'static str,
    alphabet: Vec<Spec>,
    storage: Storage,
    base: Mutex<StateDelta<Snapshot>>,
    base_dump: Arc<Dump>,
    /// asset key (ibc/<hash>) -> full denomination trace, for the reference source-zone rule
    traces: BTreeMap<String, String>,
}

thread_local! {
    static WORKER_APP: std::cell::RefCell<Option<App>> = const { std::cell::RefCell::new(None) };
}

fn with_worker_app<R>(storage: &Storage, f: impl FnOnce(&mut App) -> R) -> R {
    WORKER_APP.with(|cell| {
        let mut slot = cell.borrow_mut();
        if slot.is_none() {
            *slot = Some(block_on(new_app_on(storage)));
        }
        f(slot.as_mut().unwrap())
    })
}

fn packet(on_a: (&str, &str), on_b: (&str, &str), seq: u64, data: Vec<u8>) -> Packet {
    Packet {
        sequence: Sequence(seq),
        port_on_a: on_a.0.parse().unwrap(),
        chan_on_a: on_a.1.parse().unwrap(),
        port_on_b: on_b.0.parse().unwrap(),
        chan_on_b: on_b.1.parse().unwrap(),
        data,
        timeout_height_on_b: TimeoutHeight::Never,
        timeout_timestamp_on_b: ibc_types::timestamp::Timestamp::none(),
    }
}

fn no_proof() -> MerkleProof {
    MerkleProof {
        proofs: vec![],
    }
}

impl IbcModel {
    async fn build(property: &'static str, thorough: bool) -> Self {
        let mut chain = Chain::new().await;
        chain.setup_bridges_and_fee_asset().await;
        chain.setup_ibc().await;
        // non-initial state: BR1 holds locked funds
        let txs = vec![sign_tx(&ALICE, chain.nonce_of(&ALICE).await, vec![tlevel::lock(&BR1, 500)]).unwrap()];
        let out = chain.run_block(txs).await;
        assert!(out.response.tx_results.iter().all(|r| r.code.is_ok()));
        let storage = chain.fixture.storage();
        let base = chain.begin_block_and_detach().await;
        let base_dump = Arc::new(dump_state(&base).await);
        let mut traces = BTreeMap::new();
        for d in [Denom::from(nria()), utia_here(), fee2()] {
            traces.insert(asset_key(&d), match &d {
                Denom::TracePrefixed(t) => t.to_string(),
                Denom::IbcPrefixed(i) => i.to_string(),
            });
        }
        Self {
            property,
            alphabet: alphabet(thorough),
            storage,
            base: Mutex::new(base),
            base_dump,
            traces,
        }
    }

    fn viol(&self, property: &str, clause: &str, signature: &str, detail: String) -> Violation {
        Violation {
            clause: format!("{property}/{clause}"),
            signature: signature.to_string(),
            detail,
        }
    }

    /// ICS-20: the sender chain is the source zone unless the denomination trace starts with the
    /// (port, channel) the packet is sent over.
    fn sequencer_is_source(&self, asset_key: &str, channel: u64) -> bool {
        let trace = self.traces.get(asset_key).cloned().unwrap_or_default();
        !trace.starts_with(&format!("transfer/channel-{channel}/"))
    }
}

fn decode_name(acct_b64: &str) -> String {
    use base64::Engine as _;
    base64::engine::general_purpose::URL_SAFE
        .decode(acct_b64)
        .ok()
        .and_then(|v| <[u8; 20]>::try_from(v.as_slice()).ok())
        .map_or_else(|| acct_b64.to_string(), |a| name_of(&a))
}

fn ledger_of(dump: &Dump) -> BTreeMap<(String, String), Wide> {
    dump.ledger().escrow.iter().map(|(k, v)| (k.clone(), Wide::from_u128(*v))).filter(|(_, v)| !v.is_zero()).collect()
}

fn balance_deltas(pre: &Dump, post: &Dump) -> BTreeMap<(String, String), Wide> {
    let (a, b) = (pre.ledger(), post.ledger());
    let mut out = BTreeMap::new();
    let keys: BTreeSet<&(String, String)> = a.balances.keys().chain(b.balances.keys()).collect();
    for k in keys {
        let d = Wide::diff(a.balances.get(k).copied().unwrap_or(0), b.balances.get(k).copied().unwrap_or(0));
        if !d.is_zero() {
            out.insert((format!("acct:{}", k.0), k.1.clone()), d);
        }
    }
    let keys: BTreeSet<&(String, String)> = a.escrow.keys().chain(b.escrow.keys()).collect();
    for k in keys {
        let d = Wide::diff(a.escrow.get(k).copied().unwrap_or(0), b.escrow.get(k).copied().unwrap_or(0));
        if !d.is_zero() {
            out.insert((format!("escrow:{}", k.0), k.1.clone()), d);
        }
    }
    out
}

fn non_ibc_core_diff(pre: &Dump, post: &Dump) -> Vec<String> {
    // keys written by penumbra's IBC core (acknowledgements, receipts, commitments, sequences)
    pre.diff_keys(post).into_iter().filter(|k| !k.starts_with("ibc-data/") && !k.starts_with("nv:ibc-data/")).collect()
}

impl Model for IbcModel {
    type Ev = usize;
    type St = Node;

    fn init(&self) -> Node {
        Node {
            delta: Mutex::new(self.base.lock().unwrap().fork()),
            dump: self.base_dump.clone(),
            sent: Vec::new(),
            ledger: ledger_of(&self.base_dump),
            recv_seq: 1,
        }
    }

    fn enabled(&self, st: &Node, _hist: &[usize]) -> Vec<usize> {
        (0..self.alphabet.len())
            .filter(|i| match &self.alphabet[*i].kind {
                Kind::In(Incoming::AckErrOfSent(k) | Incoming::AckOkOfSent(k) | Incoming::TimeoutOfSent(k)) => {
                    st.sent.get(*k).is_some_and(|s| !s.resolved)
                }
                _ => true,
            })
            .collect()
    }

    fn step(&self, st: &Node, _hist: &[usize], ev: &usize) -> Step<Node> {
        let spec = &self.alphabet[*ev];
        let pre = st.dump.clone();
        let mut sent = st.sent.clone();
        let mut ledger = st.ledger.clone();
        let mut recv_seq = st.recv_seq;
        let fork = st.delta.lock().unwrap().fork();
        let mut violation: Option<Violation> = None;
        let mut auth_violation: Option<Violation> = None;
        let post_state: StateDelta<Snapshot>;
        match &spec.kind {
            Kind::Tx {
                signer,
                actions,
            } => {
                let nonce = pre.ledger().nonces.get(&b64(&signer.address_bytes())).copied().unwrap_or(0);
                let Some(bytes) = sign_tx(signer, nonce, actions.clone()) else {
                    return Step::Skip;
                };
                let checked = {
                    let base = self.base.lock().unwrap().fork();
                    block_on(CheckedTransaction::new(bytes.clone(), &base))
                };
                if std::env::var("VERIF_TRACE").is_ok() {
                    if let Err(e) = &checked {
                        println!("TRACE {:?} + {}: construction error {}", _hist, spec.name, format!("{e:?}").chars().take(300).collect::<String>());
                    }
                }
                let Ok(checked) = checked else {
                    return Step::Skip;
                };
                let (result, post) = with_worker_app(&self.storage, |app| {
                    let dummy = std::mem::replace(&mut app.state, Arc::new(fork));
                    let r = block_on(app.execute_transaction(Arc::new(checked)));
                    let post = Arc::try_unwrap(std::mem::replace(&mut app.state, dummy)).ok().expect("exclusive");
                    (r.map_err(|e| format!("{e:?}")), post)
                });
                post_state = post;
                let post = block_on(dump_state(&post_state));
                if std::env::var("VERIF_TRACE").is_ok() {
                    println!("TRACE {:?} + {}: {:?}", _hist, spec.name, result.as_ref().map(|e| e.len()).map_err(|e| e.chars().take(300).collect::<String>()));
                }
                match &result {
                    Err(_) => {
                        if *pre != post {
                            violation = Some(self.viol(
                                "C03",
                                "failed-tx-leaves-no-trace",
                                "state changed by a failed transaction",
                                format!("{} failed but changed {:?}", spec.name, pre.diff_keys(&post).iter().take(4).collect::<Vec<_>>()),
                            ));
                        }
                    }
                    Ok(events) => {
                        let fee: u128 = events
                            .iter()
                            .filter(|e| e.kind == "tx.fees")
                            .filter_map(|e| e.attributes.iter().find(|a| a.key_str().ok() == Some("feeAmount")).and_then(|a| a.value_str().ok()?.parse::<u128>().ok()))
                            .sum();
                        let mut want: BTreeMap<(String, String), Wide> = BTreeMap::new();
                        let signer_acct = format!("acct:{}", b64(&signer.address_bytes()));
                        let fee_key = asset_key(&nria().into());
                        *want.entry((signer_acct.clone(), fee_key.clone())).or_insert(Wide::ZERO) = Wide::from_u128(fee).neg();
                        for a in actions {
                            match a {
                                Action::Ics20Withdrawal(w) => {
                                    let from = w.bridge_address.map_or(signer.address_bytes(), |b| b.bytes());
                                    let key = asset_key(&w.denom);
                                    let amt = Wide::from_u128(w.amount);
                                    let e = want.entry((format!("acct:{}", b64(&from)), key.clone())).or_insert(Wide::ZERO);
                                    *e = e.sub(amt);
                                    let channel = w.source_channel.to_string().trim_start_matches("channel-").parse::<u64>().unwrap();
                                    if self.sequencer_is_source(&key, channel) {
                                        let e = want.entry((format!("escrow:channel-{channel}"), key.clone())).or_insert(Wide::ZERO);
                                        *e = e.add(amt);
                                        let l = ledger.entry((format!("channel-{channel}"), key.clone())).or_insert(Wide::ZERO);
                                        *l = l.add(amt);
                                    }
                                    // remember the packet for acknowledgements / timeouts
                                    let data = FungibleTokenPacketData {
                                        amount: w.amount.to_string(),
                                        denom: w.denom.to_string(),
                                        sender: w.return_address.to_string(),
                                        receiver: w.destination_chain_address.clone(),
                                        memo: w.memo.clone(),
                                    };
                                    sent.insert(0, Sent {
                                        data: serde_json::to_vec(&data).unwrap(),
                                        channel,
                                        resolved: false,
                                    });
                                    sent.truncate(2);
                                    // C04: event id single use across action kinds
                                    if let Some(b) = w.bridge_address {
                                        if let Ok(m) = serde_json::from_str::<Ics20WithdrawalFromRollup>(&w.memo) {
                                            let prefix = format!("bridge/account/{}/withdrawal_event/", b64(&b.bytes()));
                                            let used_before = pre.verifiable.keys().any(|k| k.starts_with(&prefix) && k.ends_with(&m.rollup_withdrawal_event_id));
                                            let recorded = post.verifiable.keys().any(|k| k.starts_with(&prefix) && k.ends_with(&m.rollup_withdrawal_event_id));
                                            if used_before {
                                                violation = Some(self.viol("C04", "withdrawal-once", "withdrawal event id honoured twice", format!("{}: event `{}` already used", spec.name, m.rollup_withdrawal_event_id)));
                                            } else if !recorded {
                                                violation = Some(self.viol("C04", "withdrawal-once", "honoured withdrawal event id not recorded", format!("{}: event `{}` paid out by an IBC withdrawal but not recorded for bridge {}", spec.name, m.rollup_withdrawal_event_id, name_of(&b.bytes()))));
                                            }
                                        }
                                    }
                                }
                                Action::BridgeUnlock(u) => {
                                    let key = asset_key(&nria().into());
                                    let amt = Wide::from_u128(u.amount);
                                    let e = want.entry((format!("acct:{}", b64(&u.bridge_address.bytes())), key.clone())).or_insert(Wide::ZERO);
                                    *e = e.sub(amt);
                                    let e = want.entry((format!("acct:{}", b64(&u.to.bytes())), key.clone())).or_insert(Wide::ZERO);
                                    *e = e.add(amt);
                                    let prefix = format!("bridge/account/{}/withdrawal_event/", b64(&u.bridge_address.bytes()));
                                    if pre.verifiable.keys().any(|k| k.starts_with(&prefix) && k.ends_with(&u.rollup_withdrawal_event_id)) {
                                        violation = Some(self.viol("C04", "withdrawal-once", "withdrawal event id honoured twice", format!("{}: event `{}` already used (by an earlier IBC withdrawal or unlock)", spec.name, u.rollup_withdrawal_event_id)));
                                    }
                                }
                                _ => {}
                            }
                        }
                        want.retain(|_, v| !v.is_zero());
                        let got = balance_deltas(&pre, &post);
                        // C02: an account other than the signer only loses funds if it is a bridge
                        // account whose stored withdrawer is the signer
                        for ((who, asset), delta) in &got {
                            let Some(acct) = who.strip_prefix("acct:") else { continue };
                            if !delta.is_negative() || who == &signer_acct {
                                continue;
                            }
                            let is_bridge = pre.verifiable.contains_key(&format!("bridge/account/{acct}/rollup_id"));
                            let withdrawer: Option<[u8; 20]> = pre
                                .verifiable
                                .get(&format!("bridge/withdrawer/{acct}"))
                                .and_then(|v| (v.len() >= 20).then(|| v[v.len() - 20..].try_into().unwrap()));
                            if !(is_bridge && withdrawer == Some(signer.address_bytes())) {
                                auth_violation = Some(self.viol(
                                    "C02",
                                    "funds-only-by-owner",
                                    "balance of a foreign account decreased",
                                    format!(
                                        "{}: balance of {} ({asset}) changed by {delta:?}; signer {} is neither the owner nor its bridge withdrawer",
                                        spec.name,
                                        decode_name(acct),
                                        name_of(&signer.address_bytes())
                                    ),
                                ));
                            }
                        }
                        if violation.is_none() && got != want {
                            let ibc_form_burn = actions.iter().any(|a| matches!(a, Action::Ics20Withdrawal(w) if matches!(w.denom, Denom::IbcPrefixed(_))));
                            violation = Some(self.viol(
                                "C18",
                                "escrow-accounting",
                                if ibc_form_burn {
                                    "sequencer-origin asset named in ibc/ form is burned instead of escrowed"
                                } else {
                                    "withdrawal moved funds differently from escrow / burn rule"
                                },
                                format!("{}: balance and escrow deltas {got:?}, ICS-20 reference {want:?}", spec.name),
                            ));
                        }
                    }
                }
                if let Some(v) = auth_violation.take() {
                    if v.clause.starts_with(self.property) {
                        return Step::Violated(v);
                    }
                }
                if let Some(v) = violation.take() {
                    if v.clause.starts_with(self.property) {
                        return Step::Violated(v);
                    }
                }
                let post = Arc::new(post);
                return self.finish(st, post_state, post, sent, ledger, recv_seq);
            }
            Kind::In(incoming) => {
                let mut fork = fork;
                let tx_id = TransactionId::new([0x42; 32]);
                // the relay action runs check + execute inside the transaction's state delta, which
                // is dropped if the handler returns an error
                let mut tx_delta = StateDelta::new(&mut fork);
                tx_delta.ephemeral_put_ibc_context(tx_id, 0);
                let handler_result: Result<(), String>;
                let mut expectation: Option<(BTreeMap<(String, String), Wide>, bool)> = None; // (full-effect deltas, expects deposit)
                // a reason why the reference is certain that this packet cannot be applied
                let mut must_refuse: Option<String> = None;
                let mut is_recv = false;
                match incoming {
                    Incoming::Recv {
                        denom,
                        amount,
                        receiver,
                        memo,
                        channel,
                    } => {
                        is_recv = true;
                        let data = FungibleTokenPacketData {
                            amount: amount.to_string(),
                            denom: denom.clone(),
                            sender: "sender-on-counterparty".to_string(),
                            receiver: receiver.clone(),
                            memo: memo.clone(),
                        };
                        let p = packet(("transfer", COUNTERPARTY_CHANNEL), ("transfer", &format!("channel-{channel}")), recv_seq, serde_json::to_vec(&data).unwrap());
                        recv_seq += 1;
                        let msg = MsgRecvPacket {
                            packet: p,
                            proof_commitment_on_a: no_proof(),
                            proof_height_on_a: Height::new(0, 1).unwrap(),
                            signer: String::new(),
                        };
                        handler_result = block_on(async {
                            Ics20Transfer::recv_packet_check(&tx_delta, &msg).await.map_err(|e| format!("{e:#}"))?;
                            Ics20Transfer::recv_packet_execute(&mut tx_delta, &msg).await.map_err(|e| format!("{e:#}"))
                        });
                        // reference full effect
                        let returning_prefix = format!("transfer/{COUNTERPARTY_CHANNEL}/");
                        let (asset_here, returning) = match denom.strip_prefix(&returning_prefix) {
                            Some(rest) => (rest.to_string(), true),
                            None => (format!("transfer/channel-{channel}/{denom}"), false),
                        };
                        if let Ok(d) = asset_here.parse::<Denom>() {
                            let key = asset_key(&d);
                            let post_blackburn = pre.verifiable.contains_key("upgrades/blackburn/ics20_transfer_action_change");
                            if post_blackburn && !pre.verifiable.contains_key(&format!("fees/allowed_asset/{key}")) {
                                must_refuse = Some(format!("`{asset_here}` is not an allowed fee asset (post-Blackburn only allowed fee assets may be received)"));
                            }
                            if let Ok(recipient) = receiver.parse::<Address>() {
                                let mut full = BTreeMap::new();
                                full.insert((format!("acct:{}", b64(&recipient.bytes())), key.clone()), Wide::from_u128(*amount));
                                if returning {
                                    full.insert((format!("escrow:channel-{channel}"), key.clone()), Wide::from_u128(*amount).neg());
                                }
                                let to_bridge = pre.verifiable.contains_key(&format!("bridge/account/{}/rollup_id", b64(&recipient.bytes())));
                                expectation = Some((full, to_bridge));
                            }
                        }
                    }
                    Incoming::AckErrOfSent(k) | Incoming::AckOkOfSent(k) | Incoming::TimeoutOfSent(k) => {
                        let s = sent[*k].clone();
                        sent[*k].resolved = true;
                        let p = packet(("transfer", &format!("channel-{}", s.channel)), ("transfer", COUNTERPARTY_CHANNEL), 1, s.data.clone());
                        handler_result = match incoming {
                            Incoming::TimeoutOfSent(_) => {
                                let msg = MsgTimeout {
                                    packet: p,
                                    next_seq_recv_on_b: Sequence(1),
                                    proof_unreceived_on_b: no_proof(),
                                    proof_height_on_b: Height::new(0, 1).unwrap(),
                                    signer: String::new(),
                                };
                                block_on(async {
                                    Ics20Transfer::timeout_packet_check(&tx_delta, &msg).await.map_err(|e| format!("{e:#}"))?;
                                    Ics20Transfer::timeout_packet_execute(&mut tx_delta, &msg).await.map_err(|e| format!("{e:#}"))
                                })
                            }
                            _ => {
                                let ack: Vec<u8> = if matches!(incoming, Incoming::AckOkOfSent(_)) {
                                    ibc_types::transfer::acknowledgement::TokenTransferAcknowledgement::success().into()
                                } else {
                                    ibc_types::transfer::acknowledgement::TokenTransferAcknowledgement::Error("failed".into()).into()
                                };
                                let msg = MsgAcknowledgement {
                                    packet: p,
                                    acknowledgement: ack,
                                    proof_acked_on_b: no_proof(),
                                    proof_height_on_b: Height::new(0, 1).unwrap(),
                                    signer: String::new(),
                                };
                                block_on(async {
                                    Ics20Transfer::acknowledge_packet_check(&tx_delta, &msg).await.map_err(|e| format!("{e:#}"))?;
                                    Ics20Transfer::acknowledge_packet_execute(&mut tx_delta, &msg).await.map_err(|e| format!("{e:#}"))
                                })
                            }
                        };
                        if !matches!(incoming, Incoming::AckOkOfSent(_)) {
                            // reference: a refund of what was sent goes back to the sender, out of
                            // escrow iff the sequencer was the source zone when sending
                            let data: FungibleTokenPacketData = serde_json::from_slice(&s.data).unwrap();
                            let d: Denom = data.denom.parse().unwrap();
                            let key = asset_key(&d);
                            let amt = Wide::from_u128(data.amount.parse::<u128>().unwrap());
                            let sender: Address = data.sender.parse().unwrap();
                            let mut full = BTreeMap::new();
                            full.insert((format!("acct:{}", b64(&sender.bytes())), key.clone()), amt);
                            if self.sequencer_is_source(&key, s.channel) {
                                full.insert((format!("escrow:channel-{}", s.channel), key.clone()), amt.neg());
                            }
                            let to_bridge = serde_json::from_str::<Ics20WithdrawalFromRollup>(&data.memo).is_ok();
                            expectation = Some((full, to_bridge));
                        } else {
                            expectation = Some((BTreeMap::new(), false));
                        }
                    }
                    Incoming::AckErrInvented {
                        denom,
                        amount,
                        sender,
                        channel,
                    } => {
                        let data = FungibleTokenPacketData {
                            amount: amount.to_string(),
                            denom: denom.clone(),
                            sender: sender.clone(),
                            receiver: "someone".to_string(),
                            memo: String::new(),
                        };
                        let p = packet(("transfer", &format!("channel-{channel}")), ("transfer", COUNTERPARTY_CHANNEL), 99, serde_json::to_vec(&data).unwrap());
                        let msg = MsgAcknowledgement {
                            packet: p,
                            acknowledgement: ibc_types::transfer::acknowledgement::TokenTransferAcknowledgement::Error("failed".into()).into(),
                            proof_acked_on_b: no_proof(),
                            proof_height_on_b: Height::new(0, 1).unwrap(),
                            signer: String::new(),
                        };
                        handler_result = block_on(async {
                            Ics20Transfer::acknowledge_packet_check(&tx_delta, &msg).await.map_err(|e| format!("{e:#}"))?;
                            Ics20Transfer::acknowledge_packet_execute(&mut tx_delta, &msg).await.map_err(|e| format!("{e:#}"))
                        });
                        let d: Denom = denom.parse().unwrap();
                        let key = asset_key(&d);
                        let amt = Wide::from_u128(*amount);
                        let s: Address = sender.parse().unwrap();
                        let mut full = BTreeMap::new();
                        full.insert((format!("acct:{}", b64(&s.bytes())), key.clone()), amt);
                        full.insert((format!("escrow:channel-{channel}"), key), amt.neg());
                        expectation = Some((full, false));
                    }
                }
                let events = if handler_result.is_ok() {
                    let (_, events) = tx_delta.apply();
                    events
                } else {
                    drop(tx_delta);
                    Vec::new()
                };
                post_state = fork;
                let post = block_on(dump_state(&post_state));
                if std::env::var("VERIF_TRACE").is_ok() {
                    println!("TRACE {:?} + {}: handler {:?}", _hist, spec.name, handler_result);
                }
                let got = balance_deltas(&pre, &post);
                let new_deposits = post.deposits.len() as i64 - pre.deposits.len() as i64;
                let deposit_events = events.iter().filter(|e| e.kind == "tx.deposit").count();
                let other_changes = non_ibc_core_diff(&pre, &post)
                    .into_iter()
                    .filter(|k| !k.starts_with("accounts/") && !k.starts_with("ibc/channel-") && !k.starts_with("assets/"))
                    .collect::<Vec<_>>();
                if let Some((full, expects_deposit)) = expectation {
                    let full: BTreeMap<(String, String), Wide> = full.into_iter().filter(|(_, v)| !v.is_zero()).collect();
                    let applied = got == full
                        && (new_deposits == i64::from(expects_deposit))
                        && (deposit_events == usize::from(expects_deposit))
                        && (!full.is_empty() || new_deposits == 0);
                    let nothing = got.is_empty() && new_deposits == 0 && deposit_events == 0 && !post.verifiable.keys().any(|k| k.starts_with("assets/") && !pre.verifiable.contains_key(k));
                    if !(applied || nothing) {
                        let sig = if is_recv && got.is_empty() && (new_deposits > 0 || deposit_events > 0) {
                            "deposit published for an incoming packet that moved no funds"
                        } else if is_recv {
                            "incoming packet partially applied"
                        } else {
                            "refund partially or wrongly applied"
                        };
                        violation = Some(self.viol(
                            "C18",
                            "all-or-nothing",
                            sig,
                            format!(
                                "{}: handler result {handler_result:?}; balance/escrow deltas {got:?}, new cached deposits {new_deposits}, deposit events {deposit_events}; full effect would be {full:?} with deposit={expects_deposit}",
                                spec.name
                            ),
                        ));
                    }
                    if let (true, Some(why), true) = (applied && !full.is_empty(), &must_refuse, violation.is_none()) {
                        violation = Some(self.viol(
                            "C18",
                            "all-or-nothing",
                            "an incoming packet that cannot be applied was applied",
                            format!("{}: {why}; handler result {handler_result:?}; balance/escrow deltas {got:?}", spec.name),
                        ));
                    }
                    if applied {
                        // update the reference ledger
                        for ((place, key), v) in &full {
                            if let Some(ch) = place.strip_prefix("escrow:") {
                                let l = ledger.entry((ch.to_string(), key.clone())).or_insert(Wide::ZERO);
                                *l = l.add(*v);
                            }
                        }
                    }
                } else if !got.is_empty() || new_deposits != 0 {
                    violation = Some(self.viol(
                        "C18",
                        "all-or-nothing",
                        "malformed incoming packet had an effect",
                        format!("{}: deltas {got:?}", spec.name),
                    ));
                }
                if violation.is_none() && !other_changes.is_empty() {
                    violation = Some(self.viol(
                        "C18",
                        "all-or-nothing",
                        "incoming packet changed unrelated state",
                        format!("{}: {other_changes:?}", spec.name),
                    ));
                }
                // escrow never below the reference / negative
                ledger.retain(|_, v| !v.is_zero());
                if violation.is_none() {
                    if let Some((k, v)) = ledger.iter().find(|(_, v)| v.is_negative()) {
                        violation = Some(self.viol(
                            "C18",
                            "escrow-accounting",
                            "more released than escrowed",
                            format!("{}: reference escrow for {k:?} is {v}", spec.name),
                        ));
                    }
                }
                if violation.is_none() && ledger_of(&post) != ledger {
                    violation = Some(self.viol(
                        "C18",
                        "escrow-accounting",
                        "escrow differs from sent minus returned minus refunded",
                        format!("{}: stored escrow {:?}, reference {ledger:?}", spec.name, ledger_of(&post)),
                    ));
                }
                if let Some(v) = violation.take() {
                    if v.clause.starts_with(self.property) {
                        return Step::Violated(v);
                    }
                    // another property's clause: resynchronise the reference and go on
                    ledger = ledger_of(&post);
                }
                let post = Arc::new(post);
                self.finish(st, post_state, post, sent, ledger, recv_seq)
            }
        }
    }

    fn canon(&self, st: &Node) -> u128 {
        report::h128(&(&*st.dump, &st.sent, st.ledger.iter().map(|(k, v)| (k.clone(), v.to_string())).collect::<Vec<_>>()))
    }

    fn outcome(&self, st: &Node) -> u64 {
        report::h64(&(st.dump.deposits.len(), st.ledger.len(), st.sent.len()))
    }
}

impl IbcModel {
    fn finish(
        &self,
        _st: &Node,
        post_state: StateDelta<Snapshot>,
        post: Arc<Dump>,
        sent: Vec<Sent>,
        mut ledger: BTreeMap<(String, String), Wide>,
        recv_seq: u64,
    ) -> Step<Node> {
        ledger.retain(|_, v| !v.is_zero());
        if self.property != "C18" {
            // keep the reference in step with the implementation when another property is judged
            ledger = ledger_of(&post);
        }
        Step::Next(Node {
            delta: Mutex::new(post_state),
            dump: post,
            sent,
            ledger,
            recv_seq,
        })
    }
}

pub(crate) fn run_ibc(property: &'static str, stage: &str, quick_depth: usize, thorough_depth: usize) {
    let mut rep = Report::new(property, stage);
    let thorough = report::tier() == Tier::Thorough;
    let depth = if thorough { thorough_depth } else { quick_depth };
    let m = block_on(IbcModel::build(property, thorough));
    let name = |i: &usize| J::s(m.alphabet[*i].name.clone());
    if let Some(case) = report::load_replay(property, stage) {
        let full = block_on(IbcModel::build(property, true));
        let hist: Vec<usize> = case
            .get("history")
            .and_then(J::as_arr)
            .unwrap()
            .iter()
            .map(|j| full.alphabet.iter().position(|s| Some(s.name.as_str()) == j.as_str()).expect("known event"))
            .collect();
        let a = explore::replay(&full, &hist);
        let b = explore::replay(&full, &hist);
        assert_eq!(format!("{a:?}"), format!("{b:?}"), "uncontrolled nondeterminism");
        println!("REPLAY {a:?}");
        if let Ok(Some(v)) = a {
            rep.finding(Finding {
                clause: v.clause,
                signature: v.signature,
                detail: v.detail,
                case,
            });
        }
        rep.finish();
        return;
    }
    rep.rule(&format!(
        "BFS over every sequence of <= {depth} events from {} outgoing / incoming ICS-20 events (withdrawals of the native asset \
         in trace and ibc/ form over two channels, from a bridge with an event id, of a foreign asset; unlock with the same \
         event id; incoming packets of returning and foreign assets to plain and bridge accounts with good / bad memos, \
         amounts above the escrow; error acks and timeouts of the path's own packets and of an invented one) on forks of a \
         real block state with open channels; outgoing through the real transaction path, incoming through the real \
         Ics20Transfer check+execute handlers in a state transaction; oracle: reference escrow ledger, ICS-20 source-zone \
         rule by full denomination trace, all-or-nothing effect of every incoming packet / refund, event ids single use",
        m.alphabet.len()
    ));
    let out = explore::explore(
        &m,
        &Config {
            max_depth: depth,
            workers: report::workers(),
            time_cap: std::time::Duration::from_secs(if thorough { 3000 } else { 240 }),
            ..Config::default()
        },
    );
    println!(
        "NOTE {property} ibc alphabet={} depth={depth}: states={} transitions={} skipped={} outcomes={} per_depth={:?} violations={}",
        m.alphabet.len(),
        out.states,
        out.transitions,
        out.skipped,
        out.distinct_outcomes,
        out.per_depth_states,
        out.violations.len()
    );
    rep.add("states", out.states);
    rep.add("transitions", out.transitions);
    rep.add("traces_validated_against_impl", out.transitions);
    rep.add("distinct_outcomes", out.distinct_outcomes);
    if let Some(cap) = &out.cap_hit {
        rep.cap_hit(cap);
    }
    for v in &out.violations {
        let a = explore::replay(&m, &v.history);
        let b = explore::replay(&m, &v.history);
        assert_eq!(format!("{a:?}"), format!("{b:?}"), "uncontrolled nondeterminism");
        rep.finding(Finding {
            clause: v.violation.clause.clone(),
            signature: v.violation.signature.clone(),
            detail: format!("{} | history {:?}", v.violation.detail, v.history.iter().map(|i| m.alphabet[*i].name.clone()).collect::<Vec<_>>()),
            case: J::obj().with("history", J::arr(v.history.iter().map(name))),
        });
    }
    for h in out.sample_histories.iter().take(4) {
        rep.sample(J::obj().with("history", J::arr(h.iter().map(name))));
    }
    rep.set_extra("depth", J::i(depth));
    rep.assume("incoming packets enter at the ICS-20 application handlers; penumbra's proof / commitment verification of the relay layer is assumed");
    rep.finish();
}

#[test]
fn verif_c18_ibc() {
    run_ibc("C18", "ibc", 3, 5);
}

#[test]
fn verif_c02_ibc() {
    run_ibc("C02", "ibc", 3, 5);
}

#[test]
fn verif_c04_ibc() {
    run_ibc("C04", "ibc", 3, 5);
}
