// Sequencer harness root (child module of `crate::app`, so `App`'s private methods and fields are
// reachable). Shared infrastructure: chain universes, block driver, state dump; the per-property
// stages live in the files included below.
#![allow(clippy::all, clippy::pedantic, dead_code, unused_imports)]

#[path = "/verif/engine/mod.rs"]
pub(crate) mod engine;

#[path = "/verif/harness/sequencer/tlevel.rs"]
mod tlevel;

#[path = "/verif/harness/sequencer/voteext.rs"]
mod voteext;

#[path = "/verif/harness/sequencer/blevel.rs"]
mod blevel;

#[path = "/verif/harness/sequencer/proposals.rs"]
mod proposals;

#[path = "/verif/harness/sequencer/rollupdata.rs"]
mod rollupdata;

#[path = "/verif/harness/sequencer/checktx_mc.rs"]
mod checktx_mc;

#[path = "/verif/harness/sequencer/ibc_mc.rs"]
mod ibc_mc;

use std::{
    collections::{
        BTreeMap,
        HashMap,
    },
    sync::{
        Arc,
        LazyLock,
    },
    time::Duration,
};

use astria_core::{
    crypto::SigningKey,
    primitive::v1::{
        asset::{
            Denom,
            IbcPrefixed,
        },
        Address,
        RollupId,
    },
    protocol::transaction::v1::{
        action::{
            FeeAssetChange,
            InitBridgeAccount,
        },
        Action,
        TransactionBody,
    },
    Protobuf as _,
};
use bytes::Bytes;
use cnidarium::{
    Snapshot,
    StateDelta,
    StateRead,
    StateWrite,
    Storage,
};
use futures::StreamExt as _;
use prost::Message as _;
use tendermint::{
    abci,
    abci::types::{
        CommitInfo,
        ExtendedCommitInfo,
    },
    account,
    block::Height,
    Hash,
    Time,
};

use super::{
    App,
    BlockData,
};
use crate::{
    accounts::StateWriteExt as _,
    app::StateReadExt as _,
    test_utils::{
        astria_address,
        nria,
        Fixture,
        ALICE,
        ALICE_ADDRESS_BYTES,
        BOB,
        CAROL,
        IBC_SUDO,
        SUDO,
        SUDO_ADDRESS,
    },
};

// ---------------------------------------------------------------------------------------------
// Keys and well-known values
// ---------------------------------------------------------------------------------------------

fn key_from_seed(seed: u8) -> SigningKey {
    SigningKey::from([seed; 32])
}

/// Bridge withdrawer.
pub(crate) static W: LazyLock<SigningKey> = LazyLock::new(|| key_from_seed(0x71));
/// Bridge accounts (an InitBridgeAccount must be signed by the bridge account itself).
pub(crate) static BR1: LazyLock<SigningKey> = LazyLock::new(|| key_from_seed(0x72));
pub(crate) static BR2: LazyLock<SigningKey> = LazyLock::new(|| key_from_seed(0x73));
pub(crate) static BR3: LazyLock<SigningKey> = LazyLock::new(|| key_from_seed(0x74));
/// A funded account that holds no privilege and is no validator.
pub(crate) static DAVE: LazyLock<SigningKey> = LazyLock::new(|| key_from_seed(0x75));
/// The account that sudo / ibc sudo / bridge sudo privileges are handed to in "former holder" runs.
pub(crate) static EVE: LazyLock<SigningKey> = LazyLock::new(|| key_from_seed(0x76));

pub(crate) fn addr(k: &SigningKey) -> Address {
    astria_address(&k.address_bytes())
}

pub(crate) fn r1() -> RollupId {
    RollupId::new([0xa1; 32])
}

pub(crate) fn r2() -> RollupId {
    RollupId::new([0xa2; 32])
}

pub(crate) fn r3() -> RollupId {
    RollupId::new([0xa3; 32])
}

/// Second allowed fee asset.
pub(crate) fn fee2() -> Denom {
    "fee2".parse().unwrap()
}

/// An asset that is not a fee asset.
pub(crate) fn other_asset() -> Denom {
    "other".parse().unwrap()
}

pub(crate) fn named_keys() -> Vec<(&'static str, SigningKey)> {
    vec![
        ("ALICE", ALICE.clone()),
        ("BOB", BOB.clone()),
        ("CAROL", CAROL.clone()),
        ("SUDO", SUDO.clone()),
        ("IBC_SUDO", IBC_SUDO.clone()),
        ("W", W.clone()),
        ("BR1", BR1.clone()),
        ("BR2", BR2.clone()),
        ("BR3", BR3.clone()),
        ("DAVE", DAVE.clone()),
        ("EVE", EVE.clone()),
    ]
}

pub(crate) fn name_of(address_bytes: &[u8]) -> String {
    for (n, k) in named_keys() {
        if k.address_bytes().as_slice() == address_bytes {
            return n.to_string();
        }
    }
    engine::report::hex(address_bytes)
}

pub(crate) const GENESIS_SMALL: u128 = 1_000_000_000_000_000;

pub(crate) fn block_time(height: u64) -> Time {
    Time::from_unix_timestamp(1_744_036_762, 123_456_789)
        .unwrap()
        .checked_add(Duration::from_secs(height))
        .unwrap()
}

pub(crate) fn proposer() -> account::Id {
    ALICE_ADDRESS_BYTES.to_vec().try_into().unwrap()
}

// ---------------------------------------------------------------------------------------------
// Transactions
// ---------------------------------------------------------------------------------------------

/// Signs a transaction; `None` if the actions cannot be bundled (mixed action groups).
pub(crate) fn sign_tx(signer: &SigningKey, nonce: u32, actions: Vec<Action>) -> Option<Bytes> {
    sign_tx_for_chain(signer, nonce, actions, "test")
}

pub(crate) fn sign_tx_for_chain(signer: &SigningKey, nonce: u32, actions: Vec<Action>, chain_id: &str) -> Option<Bytes> {
    let body = TransactionBody::builder()
        .nonce(nonce)
        .chain_id(chain_id.to_string())
        .actions(actions)
        .try_build()
        .ok()?;
    Some(Bytes::from(body.sign(signer).into_raw().encode_to_vec()))
}

// ---------------------------------------------------------------------------------------------
// State dump
// ---------------------------------------------------------------------------------------------

#[derive(Clone, Debug, Default, PartialEq, Eq, Hash)]
pub(crate) struct Dump {
    pub verifiable: BTreeMap<String, Vec<u8>>,
    pub nonverifiable: BTreeMap<Vec<u8>, Vec<u8>>,
    /// `fees/block` of the ephemeral object store, sorted.
    pub block_fees: BTreeMap<String, u128>,
    /// cached deposits of the ephemeral object store, rendered and sorted.
    pub deposits: Vec<String>,
}

pub(crate) async fn dump_state<S: StateRead>(state: &S) -> Dump {
    use crate::{
        bridge::StateReadExt as _,
        fees::StateReadExt as _,
    };
    let mut d = Dump::default();
    let mut stream = Box::pin(state.prefix_raw(""));
    while let Some(item) = stream.next().await {
        let (k, v) = item.expect("prefix_raw item");
        d.verifiable.insert(k, v);
    }
    drop(stream);
    let mut stream = Box::pin(state.nonverifiable_prefix_raw(b""));
    while let Some(item) = stream.next().await {
        let (k, v) = item.expect("nonverifiable_prefix_raw item");
        d.nonverifiable.insert(k, v);
    }
    drop(stream);
    for (asset, amount) in state.get_block_fees() {
        d.block_fees.insert(asset.to_string(), amount);
    }
    let mut deposits: Vec<String> = state
        .get_cached_block_deposits()
        .into_iter()
        .flat_map(|(_, ds)| ds.into_iter().map(|dep| deposit_repr(&dep)))
        .collect();
    deposits.sort();
    d.deposits = deposits;
    d
}

pub(crate) fn deposit_repr(dep: &astria_core::sequencerblock::v1::block::Deposit) -> String {
    format!(
        "bridge={} rollup={} amount={} asset={} dest={} tx={} idx={}",
        engine::report::hex(&dep.bridge_address.bytes()),
        engine::report::hex(dep.rollup_id.as_bytes()),
        dep.amount,
        dep.asset,
        dep.destination_chain_address,
        dep.source_transaction_id,
        dep.source_action_index
    )
}

fn tail_u128(v: &[u8]) -> Option<u128> {
    if v.len() < 16 {
        return None;
    }
    Some(u128::from_le_bytes(v[v.len() - 16..].try_into().unwrap()))
}

/// Decoded view of the value-carrying parts of a dump.
#[derive(Clone, Debug, Default, PartialEq, Eq)]
pub(crate) struct Ledger {
    /// (base64 account, asset key) -> balance
    pub balances: BTreeMap<(String, String), u128>,
    /// (channel, asset key) -> escrow
    pub escrow: BTreeMap<(String, String), u128>,
    /// base64 account -> nonce
    pub nonces: BTreeMap<String, u32>,
}

impl Dump {
    pub(crate) fn ledger(&self) -> Ledger {
        let mut l = Ledger::default();
        for (k, v) in &self.verifiable {
            if let Some(rest) = k.strip_prefix("accounts/") {
                if let Some((acct, asset)) = rest.split_once("/balance/") {
                    l.balances
                        .insert((acct.to_string(), asset.to_string()), tail_u128(v).expect("balance value"));
                } else if let Some(acct) = rest.strip_suffix("/nonce") {
                    let n = u32::from_le_bytes(v[v.len() - 4..].try_into().unwrap());
                    l.nonces.insert(acct.to_string(), n);
                }
            } else if let Some(rest) = k.strip_prefix("ibc/channel-") {
                if let Some((chan, asset)) = rest.split_once("/balance/") {
                    l.escrow
                        .insert((format!("channel-{chan}"), asset.to_string()), tail_u128(v).expect("escrow value"));
                }
            }
        }
        l
    }

    pub(crate) fn canon(&self) -> u128 {
        engine::report::h128(self)
    }

    /// Keys whose value differs between `self` and `other` (verifiable + nonverifiable).
    pub(crate) fn diff_keys(&self, other: &Dump) -> Vec<String> {
        let mut out = Vec::new();
        for (k, v) in &self.verifiable {
            if other.verifiable.get(k) != Some(v) {
                out.push(k.clone());
            }
        }
        for k in other.verifiable.keys() {
            if !self.verifiable.contains_key(k) {
                out.push(k.clone());
            }
        }
        for (k, v) in &self.nonverifiable {
            if other.nonverifiable.get(k) != Some(v) {
                out.push(format!("nv:{}", String::from_utf8_lossy(k)));
            }
        }
        for k in other.nonverifiable.keys() {
            if !self.nonverifiable.contains_key(k) {
                out.push(format!("nv:{}", String::from_utf8_lossy(k)));
            }
        }
        out.sort();
        out.dedup();
        out
    }
}

pub(crate) fn b64(address_bytes: &[u8]) -> String {
    use base64::{
        display::Base64Display,
        engine::general_purpose::URL_SAFE,
    };
    Base64Display::new(address_bytes, &URL_SAFE).to_string()
}

pub(crate) fn asset_key(denom: &Denom) -> String {
    denom.to_ibc_prefixed().to_string()
}

// ---------------------------------------------------------------------------------------------
// Chain universes and the block driver
// ---------------------------------------------------------------------------------------------

pub(crate) struct Chain {
    pub fixture: Fixture,
    pub next_height: u64,
}

pub(crate) struct BlockOutcome {
    pub prepared: Vec<Bytes>,
    pub response: abci::response::FinalizeBlock,
    pub check_tx_rejected: usize,
}

impl Chain {
    /// Fresh post-Blackburn chain with extra funded accounts, a second fee asset and a non-fee
    /// asset.
    pub(crate) async fn new() -> Self {
        let mut fixture = Fixture::uninitialized(None).await;
        let mut accounts: Vec<(Address, u128)> = vec![
            (addr(&ALICE), crate::test_utils::TEN_QUINTILLION),
            (addr(&BOB), crate::test_utils::TEN_QUINTILLION),
            (addr(&CAROL), crate::test_utils::TEN_QUINTILLION),
        ];
        for k in [&*SUDO, &*IBC_SUDO, &*W, &*BR1, &*BR2, &*BR3, &*DAVE, &*EVE] {
            accounts.push((addr(k), GENESIS_SMALL));
        }
        fixture.chain_initializer().with_genesis_accounts(accounts).init().await;
        let next = fixture.run_until_blackburn_applied().await;
        let mut chain = Self {
            fixture,
            next_height: next.value(),
        };
        // balances in assets other than the native one are part of the genesis configuration of
        // this universe (the chain has no mint other than IBC)
        let mut delta = chain.fixture.app.new_state_delta();
        for k in [&*ALICE, &*BOB, &*CAROL, &*SUDO, &*W, &*BR1, &*DAVE] {
            delta.put_account_balance(&k.address_bytes(), &fee2(), GENESIS_SMALL).unwrap();
            delta.put_account_balance(&k.address_bytes(), &other_asset(), 1_000_000).unwrap();
        }
        let storage = chain.fixture.storage();
        chain.fixture.app.apply_and_commit(delta, storage).await;
        chain
    }

    pub(crate) fn app(&mut self) -> &mut App {
        &mut self.fixture.app
    }

    pub(crate) async fn nonce_of(&self, k: &SigningKey) -> u32 {
        use crate::accounts::StateReadExt as _;
        self.fixture.state().get_account_nonce(&k.address_bytes()).await.unwrap()
    }

    /// Runs one block through CheckTx -> PrepareProposal -> FinalizeBlock -> Commit with the real
    /// handlers; the block is whatever the proposer built from the mempool.
    /// A chain that has not reached the Aspen upgrade (legacy validator-set storage): genesis
    /// plus two empty blocks; Aspen / Blackburn are scheduled far in the future.
    pub(crate) async fn new_pre_aspen() -> Self {
        use astria_core::upgrades::test_utils::UpgradesBuilder;
        let upgrades = UpgradesBuilder::new().set_aspen(Some(100)).set_blackburn(Some(101)).build();
        let mut fixture = Fixture::uninitialized(Some(upgrades)).await;
        let mut accounts: Vec<(Address, u128)> = vec![
            (addr(&ALICE), crate::test_utils::TEN_QUINTILLION),
            (addr(&BOB), crate::test_utils::TEN_QUINTILLION),
            (addr(&CAROL), crate::test_utils::TEN_QUINTILLION),
        ];
        for k in [&*SUDO, &*IBC_SUDO, &*W, &*DAVE, &*EVE] {
            accounts.push((addr(k), GENESIS_SMALL));
        }
        fixture.chain_initializer().with_genesis_accounts(accounts).init().await;
        let mut chain = Self {
            fixture,
            next_height: 1,
        };
        chain.run_block(vec![]).await;
        chain.run_block(vec![]).await;
        chain
    }

    pub(crate) async fn run_block(&mut self, txs: Vec<Bytes>) -> BlockOutcome {
        let height = self.next_height;
        let mempool = self.fixture.mempool();
        let metrics = self.fixture.metrics();
        let mut rejected = 0;
        for tx in txs {
            let outcome =
                crate::service::mempool::check_tx(tx, self.fixture.storage().latest_snapshot(), &mempool, metrics).await;
            if !matches!(
                outcome,
                crate::service::mempool::CheckTxOutcome::AddedToPending(_)
                    | crate::service::mempool::CheckTxOutcome::AddedToParked(_)
            ) {
                rejected += 1;
            }
        }
        let storage = self.fixture.storage();
        let prepare = abci::request::PrepareProposal {
            max_tx_bytes: 1_000_000,
            txs: vec![],
            local_last_commit: Some(ExtendedCommitInfo {
                votes: vec![],
                round: 0u16.into(),
            }),
            misbehavior: vec![],
            height: Height::try_from(height).unwrap(),
            time: block_time(height),
            next_validators_hash: Hash::default(),
            proposer_address: proposer(),
        };
        let prepared = self.fixture.app.prepare_proposal(prepare, storage.clone()).await.expect("prepare_proposal");
        let finalize = abci::request::FinalizeBlock {
            hash: block_hash(height, 0),
            height: Height::try_from(height).unwrap(),
            time: block_time(height),
            next_validators_hash: Hash::default(),
            proposer_address: proposer(),
            txs: prepared.txs.clone(),
            decided_last_commit: CommitInfo {
                votes: vec![],
                round: 0u16.into(),
            },
            misbehavior: vec![],
        };
        let response = self.fixture.app.finalize_block(finalize, storage.clone()).await.expect("finalize_block");
        self.fixture.app.commit(storage).await.expect("commit");
        self.next_height += 1;
        BlockOutcome {
            prepared: prepared.txs,
            response,
            check_tx_rejected: rejected,
        }
    }

    /// Initialises the bridge accounts BR1 (rollup r1) and BR2 (rollup r2), both for nria with
    /// sudo SUDO and withdrawer W, and allows `fee2` as a fee asset.
    pub(crate) async fn setup_bridges_and_fee_asset(&mut self) {
        let init = |rollup_id| {
            Action::InitBridgeAccount(InitBridgeAccount {
                rollup_id,
                asset: nria().into(),
                fee_asset: nria().into(),
                sudo_address: Some(*SUDO_ADDRESS),
                withdrawer_address: Some(addr(&W)),
            })
        };
        let txs = vec![
            sign_tx(&BR1, self.nonce_of(&BR1).await, vec![init(r1())]).unwrap(),
            sign_tx(&BR2, self.nonce_of(&BR2).await, vec![init(r2())]).unwrap(),
            sign_tx(&SUDO, self.nonce_of(&SUDO).await, vec![Action::FeeAssetChange(FeeAssetChange::Addition(fee2()))])
                .unwrap(),
        ];
        let out = self.run_block(txs).await;
        assert_eq!(out.check_tx_rejected, 0, "setup transactions must pass CheckTx");
        let ok = out.response.tx_results.iter().filter(|r| r.code.is_ok()).count();
        assert_eq!(ok, out.response.tx_results.len(), "setup transactions must execute");
        assert!(out.prepared.len() >= 5, "setup block must include the three transactions");
    }

    /// Positions the app at the start of the next block (upgrades + begin_block applied), and
    /// returns the block's base state, detached from the app.
    pub(crate) async fn begin_block_and_detach(&mut self) -> StateDelta<Snapshot> {
        let height = self.next_height;
        let storage = self.fixture.storage();
        self.fixture.app.update_state_for_new_round(&storage);
        self.fixture
            .app
            .pre_execute_transactions(BlockData {
                misbehavior: vec![],
                height: Height::try_from(height).unwrap(),
                time: block_time(height),
                next_validators_hash: Hash::default(),
                proposer_address: proposer(),
            })
            .await
            .expect("pre_execute_transactions");
        let dummy = Arc::new(StateDelta::new(storage.latest_snapshot()));
        Arc::try_unwrap(std::mem::replace(&mut self.fixture.app.state, dummy))
            .ok()
            .expect("exclusive ownership of the block state")
    }
}

pub(crate) fn block_hash(height: u64, salt: u8) -> Hash {
    use sha2::Digest as _;
    let mut h = sha2::Sha256::new();
    h.update(height.to_le_bytes());
    h.update([salt]);
    Hash::Sha256(h.finalize().into())
}

/// A fresh `App` on the same storage (what a restarted / other node has).
pub(crate) async fn new_app_on(storage: &Storage) -> App {
    use astria_core::upgrades::test_utils::UpgradesBuilder;
    use telemetry::Metrics as _;
    let metrics = Box::leak(Box::new(crate::Metrics::noop_metrics(&()).unwrap()));
    let mempool = crate::mempool::Mempool::new(metrics, 100, 100);
    let upgrades = UpgradesBuilder::new().set_aspen(Some(1)).set_blackburn(Some(3)).build();
    App::new(
        storage.latest_snapshot(),
        mempool,
        upgrades.into(),
        crate::app::vote_extension::Handler::new(None),
        metrics,
    )
    .await
    .unwrap()
}

thread_local! {
    pub(crate) static RT: tokio::runtime::Runtime = tokio::runtime::Builder::new_current_thread()
        .enable_all()
        .build()
        .unwrap();
}

pub(crate) fn block_on<F: std::future::Future>(f: F) -> F::Output {
    RT.with(|rt| rt.block_on(f))
}
