// T-level: explicit-state search at transaction granularity inside one block.
//
// A transition forks the parent's block state (cnidarium `StateDelta::fork`), installs it as the
// state of a real `App` and calls the real `App::execute_transaction` with a `CheckedTransaction`
// built by the real `CheckedTransaction::new` from signed bytes against the block's base state
// (as ProcessProposal / FinalizeBlock do). `EndBlock` calls the real `App::end_block`. After every
// transition the complete state (verifiable + nonverifiable + ephemeral block fees / deposits) is
// dumped and the oracles of C01, C02, C03, C04 and C14 are evaluated on (pre, post, tx, result).
#![allow(clippy::all, clippy::pedantic, dead_code, unused_imports)]

use std::{
    collections::{
        BTreeMap,
        BTreeSet,
    },
    sync::{
        Arc,
        Mutex,
    },
};

use astria_core::{
    crypto::SigningKey,
    primitive::v1::{
        asset::Denom,
        Address,
        RollupId,
    },
    protocol::{
        fees::v1::FeeComponents,
        transaction::v1::{
            action::{
                BridgeLock,
                BridgeSudoChange,
                BridgeTransfer,
                BridgeUnlock,
                FeeAssetChange,
                FeeChange,
                CurrencyPairsChange,
                IbcRelayerChange,
                IbcSudoChange,
                InitBridgeAccount,
                RollupDataSubmission,
                SudoAddressChange,
                Transfer,
                ValidatorUpdate,
            },
            Action,
        },
    },
};
use bytes::Bytes;
use cnidarium::{
    Snapshot,
    StateDelta,
    Storage,
};
use futures::StreamExt as _;

use super::{
    addr,
    asset_key,
    b64,
    block_on,
    dump_state,
    engine::{
        explore::{
            self,
            Config,
            Model,
            Step,
            Violation,
        },
        json::J,
        report::{
            self,
            Finding,
            Report,
            Tier,
        },
        wide::Wide,
    },
    fee2,
    name_of,
    named_keys,
    new_app_on,
    other_asset,
    r1,
    r2,
    r3,
    sign_tx,
    App,
    Chain,
    Dump,
    Ledger,
    BR1,
    BR2,
    BR3,
    DAVE,
    EVE,
    W,
};
use crate::{
    authority::StateReadExt as _,
    bridge::StateReadExt as _,
    checked_transaction::CheckedTransaction,
    test_utils::{
        nria,
        ALICE,
        BOB,
        CAROL,
        IBC_SUDO,
        SUDO,
    },
};

// ---------------------------------------------------------------------------------------------
// Alphabet
// ---------------------------------------------------------------------------------------------

#[derive(Clone, Copy, Debug, PartialEq, Eq, Hash)]
pub(crate) enum NonceMode {
    Current,
    Stale,
    Gapped,
}

#[derive(Clone, Debug)]
pub(crate) struct TxT {
    pub name: String,
    pub signer: SigningKey,
    pub actions: Vec<Action>,
    pub nonce: NonceMode,
}

pub(crate) fn tx(name: &str, signer: &SigningKey, actions: Vec<Action>) -> TxT {
    TxT {
        name: format!("{}:{name}", name_of(&signer.address_bytes())),
        signer: signer.clone(),
        actions,
        nonce: NonceMode::Current,
    }
}

pub(crate) fn transfer(to: &SigningKey, amount: u128, asset: Denom, fee_asset: Denom) -> Action {
    Action::Transfer(Transfer {
        to: addr(to),
        amount,
        asset,
        fee_asset,
    })
}

pub(crate) fn rollup_data(rollup_id: RollupId, len: usize) -> Action {
    Action::RollupDataSubmission(RollupDataSubmission {
        rollup_id,
        data: Bytes::from(vec![7u8; len]),
        fee_asset: nria().into(),
    })
}

pub(crate) fn lock(to: &SigningKey, amount: u128) -> Action {
    Action::BridgeLock(BridgeLock {
        to: addr(to),
        amount,
        asset: nria().into(),
        fee_asset: nria().into(),
        destination_chain_address: "rollup-dest".into(),
    })
}

pub(crate) fn lock_asset(to: &SigningKey, amount: u128, asset: Denom) -> Action {
    Action::BridgeLock(BridgeLock {
        to: addr(to),
        amount,
        asset,
        fee_asset: nria().into(),
        destination_chain_address: "rollup-dest".into(),
    })
}

pub(crate) fn unlock(bridge: &SigningKey, to: &SigningKey, amount: u128, event: &str) -> Action {
    Action::BridgeUnlock(BridgeUnlock {
        to: addr(to),
        amount,
        fee_asset: nria().into(),
        memo: "m".into(),
        bridge_address: addr(bridge),
        rollup_block_number: 7,
        rollup_withdrawal_event_id: event.into(),
    })
}

pub(crate) fn bridge_transfer(bridge: &SigningKey, to: &SigningKey, amount: u128, event: &str) -> Action {
    Action::BridgeTransfer(BridgeTransfer {
        to: addr(to),
        amount,
        fee_asset: nria().into(),
        destination_chain_address: "rollup-dest-2".into(),
        bridge_address: addr(bridge),
        rollup_block_number: 8,
        rollup_withdrawal_event_id: event.into(),
    })
}

pub(crate) fn bridge_sudo_change(
    bridge: &SigningKey,
    new_sudo: Option<&SigningKey>,
    new_withdrawer: Option<&SigningKey>,
    disable_deposits: bool,
) -> Action {
    Action::BridgeSudoChange(BridgeSudoChange {
        bridge_address: addr(bridge),
        new_sudo_address: new_sudo.map(addr),
        new_withdrawer_address: new_withdrawer.map(addr),
        fee_asset: nria().into(),
        disable_deposits,
    })
}

pub(crate) fn validator_update(k: &SigningKey, power: u32) -> Action {
    Action::ValidatorUpdate(ValidatorUpdate {
        power,
        verification_key: k.verification_key(),
        name: name_of(&k.address_bytes()).parse().unwrap(),
    })
}

pub(crate) fn fee_change_transfer(base: u128, multiplier: u128) -> Action {
    Action::FeeChange(FeeChange::Transfer(FeeComponents::new(base, multiplier)))
}

pub(crate) fn fee_change_rollup_data(base: u128, multiplier: u128) -> Action {
    Action::FeeChange(FeeChange::RollupDataSubmission(FeeComponents::new(base, multiplier)))
}

pub(crate) fn family(name: &str) -> Vec<TxT> {
    let n = || -> Denom { nria().into() };
    let big = crate::test_utils::TEN_QUINTILLION;
    match name {
        // value movement, fees, failing bundles, fee schedule / fee asset / fee recipient changes
        "transfer" => vec![
            tx("transfer-100", &ALICE, vec![transfer(&BOB, 100, n(), n())]),
            tx("transfer-all", &ALICE, vec![transfer(&BOB, big, n(), n())]),
            tx("rollup-data-3", &BOB, vec![rollup_data(r1(), 3)]),
            tx("transfer-other-fee2", &CAROL, vec![transfer(&DAVE, 1, other_asset(), fee2())]),
            // aliasing: sender == recipient, alone and twice in a bundle, and in the fee asset != asset case
            tx("self-transfer-1000", &ALICE, vec![transfer(&ALICE, 1_000, n(), n())]),
            tx(
                "bundle-self-transfer-twice",
                &BOB,
                vec![transfer(&BOB, 7, n(), n()), transfer(&BOB, 9, other_asset(), n())],
            ),
            tx("self-transfer-other-fee2", &CAROL, vec![transfer(&CAROL, 3, other_asset(), fee2())]),
            tx("transfer-to-fee-recipient", &ALICE, vec![transfer(&SUDO, 5, n(), n())]),
            tx("sudo-transfer-to-eve", &SUDO, vec![transfer(&EVE, 1, n(), n())]),
            tx(
                "bundle-ok-then-overdraw",
                &ALICE,
                vec![transfer(&CAROL, 5, n(), n()), transfer(&CAROL, u128::MAX, n(), n())],
            ),
            tx(
                "bundle-data-then-bad-fee-asset",
                &BOB,
                vec![rollup_data(r2(), 0), transfer(&ALICE, 1, n(), other_asset())],
            ),
            // an IBC relay that fails at execution is a *non-fatal* failure after Blackburn: the
            // transaction stays in the block with an error code and must leave no trace
            tx("bad-ibc-relay", &IBC_SUDO, vec![Action::Ibc(crate::app::tests_app::bad_ibc_relay())]),
            tx(
                "bundle-transfer-then-bad-ibc-relay",
                &IBC_SUDO,
                vec![transfer(&BOB, 11, n(), n()), Action::Ibc(crate::app::tests_app::bad_ibc_relay())],
            ),
            tx("fee-transfer-max", &SUDO, vec![fee_change_transfer(u128::MAX - 1, 0)]),
            tx("fee-data-mult-max", &SUDO, vec![fee_change_rollup_data(1, u128::MAX)]),
            tx("fee-transfer-5", &SUDO, vec![fee_change_transfer(5, 0)]),
            tx("remove-fee2", &SUDO, vec![Action::FeeAssetChange(FeeAssetChange::Removal(fee2()))]),
            tx("sudo-to-eve", &SUDO, vec![Action::SudoAddressChange(SudoAddressChange {
                new_address: addr(&EVE),
            })]),
            TxT {
                nonce: NonceMode::Stale,
                ..tx("transfer-1-stale-nonce", &ALICE, vec![transfer(&BOB, 1, n(), n())])
            },
            TxT {
                nonce: NonceMode::Gapped,
                ..tx("transfer-1-gapped-nonce", &ALICE, vec![transfer(&BOB, 1, n(), n())])
            },
        ],
        // bridge deposits / withdrawals, event ids, bridge administration, unauthorised signers
        "bridge" => vec![
            tx("lock-100-br1", &ALICE, vec![lock(&BR1, 100)]),
            tx("lock-7-br2", &BOB, vec![lock(&BR2, 7)]),
            tx("unlock-br1-50-e1", &W, vec![unlock(&BR1, &CAROL, 50, "e1")]),
            tx("unlock-br1-50-e2", &W, vec![unlock(&BR1, &CAROL, 50, "e2")]),
            tx("bridge-transfer-br1-br2-30-e1", &W, vec![bridge_transfer(&BR1, &BR2, 30, "e1")]),
            tx("unlock-br1-by-alice", &ALICE, vec![unlock(&BR1, &ALICE, 10, "e3")]),
            tx("bundle-lock-then-unlock-overdraw", &W, vec![lock(&BR1, 5), unlock(&BR1, &W, u128::MAX, "e4")]),
            tx("br1-plain-transfer", &BR1, vec![transfer(&DAVE, 1, nria().into(), nria().into())]),
            tx("br1-withdrawer-to-eve", &SUDO, vec![bridge_sudo_change(&BR1, None, Some(&EVE), false)]),
            tx("br1-disable-deposits", &SUDO, vec![bridge_sudo_change(&BR1, None, None, true)]),
            // a bridge administration action that changes no address, by accounts without authority
            tx("br1-disable-deposits-by-alice", &ALICE, vec![bridge_sudo_change(&BR1, None, None, true)]),
            tx("br1-disable-deposits-by-withdrawer", &W, vec![bridge_sudo_change(&BR1, None, None, true)]),
            tx("unlock-br1-10-e5-by-eve", &EVE, vec![unlock(&BR1, &EVE, 10, "e5")]),
            tx("br1-sudo-change-by-w", &W, vec![bridge_sudo_change(&BR1, Some(&W), Some(&W), false)]),
            // aliasing: unlock to the withdrawer itself, bridge transfer to the same bridge, lock by the withdrawer
            tx("unlock-br1-20-e6-to-w", &W, vec![unlock(&BR1, &W, 20, "e6")]),
            tx("bridge-transfer-br1-br1-5-e7", &W, vec![bridge_transfer(&BR1, &BR1, 5, "e7")]),
            tx("lock-3-br1-by-w", &W, vec![lock(&BR1, 3)]),
            tx("unlock-br2-9-e1", &W, vec![unlock(&BR2, &ALICE, 9, "e1")]),
            // two deposits from one transaction (distinct action indices, two bridges), a lock in an
            // asset the bridge does not hold, a lock to a plain account
            tx("bundle-lock-br1-4-then-br2-6", &CAROL, vec![lock(&BR1, 4), lock(&BR2, 6)]),
            tx("lock-other-asset-br1", &CAROL, vec![lock_asset(&BR1, 2, other_asset())]),
            tx("lock-to-plain-account", &CAROL, vec![lock(&DAVE, 2)]),
            // locked asset and fee asset named with different lengths (the variable fee component is
            // the size of the deposit, which names the locked asset)
            tx("lock-9-br1-fee-in-ibc-form", &CAROL, vec![Action::BridgeLock(BridgeLock {
                to: addr(&BR1),
                amount: 9,
                asset: nria().into(),
                fee_asset: nria().to_ibc_prefixed().into(),
                destination_chain_address: "rollup-dest".into(),
            })]),
            tx("lock-8-br1-asset-in-ibc-form", &CAROL, vec![lock_asset(&BR1, 8, nria().to_ibc_prefixed().into())]),
        ],
        // validator updates on a chain that has not reached Aspen (legacy validator-set storage)
        "validators-pre-aspen" => vec![
            tx("add-dave-5", &SUDO, vec![validator_update(&DAVE, 5)]),
            tx("remove-dave", &SUDO, vec![validator_update(&DAVE, 0)]),
            tx("remove-alice", &SUDO, vec![validator_update(&ALICE, 0)]),
            tx("remove-bob", &SUDO, vec![validator_update(&BOB, 0)]),
            tx("remove-carol", &SUDO, vec![validator_update(&CAROL, 0)]),
            tx("alice-power-1", &SUDO, vec![validator_update(&ALICE, 1)]),
            tx(
                "bundle-add-dave-remove-dave",
                &SUDO,
                vec![validator_update(&DAVE, 3), validator_update(&DAVE, 0)],
            ),
            tx("add-dave-by-alice", &ALICE, vec![validator_update(&DAVE, 9)]),
        ],
        // chain-wide authorities and validator set
        "authority" => vec![
            tx("add-dave-5", &SUDO, vec![validator_update(&DAVE, 5)]),
            tx("remove-dave", &SUDO, vec![validator_update(&DAVE, 0)]),
            tx("remove-alice", &SUDO, vec![validator_update(&ALICE, 0)]),
            tx("remove-bob", &SUDO, vec![validator_update(&BOB, 0)]),
            tx("remove-carol", &SUDO, vec![validator_update(&CAROL, 0)]),
            tx("alice-power-1", &SUDO, vec![validator_update(&ALICE, 1)]),
            tx(
                "bundle-add-dave-remove-dave",
                &SUDO,
                vec![validator_update(&DAVE, 3), validator_update(&DAVE, 0)],
            ),
            tx("add-dave-by-alice", &ALICE, vec![validator_update(&DAVE, 9)]),
            tx("sudo-to-eve", &SUDO, vec![Action::SudoAddressChange(SudoAddressChange {
                new_address: addr(&EVE),
            })]),
            tx("add-dave-2-by-eve", &EVE, vec![validator_update(&DAVE, 2)]),
            tx("ibc-sudo-to-eve", &IBC_SUDO, vec![Action::IbcSudoChange(IbcSudoChange {
                new_address: addr(&EVE),
            })]),
            tx("relayer-add-dave", &IBC_SUDO, vec![Action::IbcRelayerChange(IbcRelayerChange::Addition(addr(&DAVE)))]),
            tx("relayer-add-dave-by-sudo", &SUDO, vec![Action::IbcRelayerChange(IbcRelayerChange::Addition(addr(&DAVE)))]),
            tx("fee-transfer-5-by-alice", &ALICE, vec![fee_change_transfer(5, 0)]),
            // every privileged action kind once by an account that holds no privilege, and the
            // legitimate counterpart where it was missing
            tx("fee-asset-add-other-by-alice", &ALICE, vec![Action::FeeAssetChange(FeeAssetChange::Addition(other_asset()))]),
            tx("fee-asset-remove-fee2-by-bob", &BOB, vec![Action::FeeAssetChange(FeeAssetChange::Removal(fee2()))]),
            tx("sudo-to-alice-by-alice", &ALICE, vec![Action::SudoAddressChange(SudoAddressChange {
                new_address: addr(&ALICE),
            })]),
            tx("ibc-sudo-to-alice-by-alice", &ALICE, vec![Action::IbcSudoChange(IbcSudoChange {
                new_address: addr(&ALICE),
            })]),
            tx("ibc-sudo-to-eve-by-sudo", &SUDO, vec![Action::IbcSudoChange(IbcSudoChange {
                new_address: addr(&EVE),
            })]),
            tx("relayer-add-alice-by-alice", &ALICE, vec![Action::IbcRelayerChange(IbcRelayerChange::Addition(addr(&ALICE)))]),
            tx("relayer-remove-ibc-sudo-by-bob", &BOB, vec![Action::IbcRelayerChange(IbcRelayerChange::Removal(addr(&IBC_SUDO)))]),
            tx(
                "pairs-remove-btc-by-alice",
                &ALICE,
                vec![Action::CurrencyPairsChange(CurrencyPairsChange::Removal(["BTC/USD".parse().unwrap()].into_iter().collect()))],
            ),
            tx(
                "pairs-add-tia-by-sudo",
                &SUDO,
                vec![Action::CurrencyPairsChange(CurrencyPairsChange::Addition(["TIA/USD".parse().unwrap()].into_iter().collect()))],
            ),
            tx("br1-withdrawer-to-alice-by-alice", &ALICE, vec![bridge_sudo_change(&BR1, None, Some(&ALICE), false)]),
            tx("bridge-transfer-br1-br2-by-alice", &ALICE, vec![bridge_transfer(&BR1, &BR2, 3, "e8")]),
        ],
        other => panic!("unknown family {other}"),
    }
}

// ---------------------------------------------------------------------------------------------
// Model
// ---------------------------------------------------------------------------------------------

#[derive(Clone, Debug, PartialEq, Eq, Hash)]
pub(crate) enum Ev {
    Tx(usize),
    /// Re-submit the exact bytes of the k-th most recent successful transaction of this path.
    Replay(usize),
    EndBlock,
}

pub(crate) struct Node {
    delta: Mutex<StateDelta<Snapshot>>,
    pub dump: Arc<Dump>,
    recent_ok: Vec<Bytes>,
    ended: bool,
}

pub(crate) struct TModel {
    pub property: &'static str,
    pub family: &'static str,
    pub alphabet: Vec<TxT>,
    pub storage: Storage,
    base: Mutex<StateDelta<Snapshot>>,
    base_dump: Arc<Dump>,
    pub height: u64,
    pub with_replay: bool,
    /// validator set (address -> power) at the start of the block = what CometBFT holds
    pub validators_at_block_start: BTreeMap<[u8; 20], u32>,
}

thread_local! {
    static WORKER_APP: std::cell::RefCell<Option<App>> = const { std::cell::RefCell::new(None) };
}

fn with_worker_app<R>(storage: &Storage, f: impl FnOnce(&mut App) -> R) -> R {
    WORKER_APP.with(|cell| {
        let mut slot = cell.borrow_mut();
        if slot.is_none() {
            *slot = Some(block_on(new_app_on(storage)));
        }
        f(slot.as_mut().unwrap())
    })
}

pub(crate) struct ExecOutcome {
    /// None = rejected by CheckedTransaction::new
    pub constructed: bool,
    pub result: Option<Result<Vec<tendermint::abci::Event>, String>>,
    pub post: Option<StateDelta<Snapshot>>,
    pub tx_bytes: Bytes,
}

impl TModel {
    pub(crate) async fn build(property: &'static str, family_name: &'static str, with_replay: bool) -> Self {
        let pre_aspen = family_name == "validators-pre-aspen";
        let mut chain = if pre_aspen {
            Chain::new_pre_aspen().await
        } else {
            let mut chain = Chain::new().await;
            chain.setup_bridges_and_fee_asset().await;
            chain
        };
        if family_name == "bridge" {
            // non-initial state: funds already locked, one withdrawal event already used
            let txs = vec![
                sign_tx(&ALICE, chain.nonce_of(&ALICE).await, vec![lock(&BR1, 1_000)]).unwrap(),
                sign_tx(&BOB, chain.nonce_of(&BOB).await, vec![lock(&BR2, 500)]).unwrap(),
            ];
            let out = chain.run_block(txs).await;
            assert!(out.response.tx_results.iter().all(|r| r.code.is_ok()));
            let txs = vec![sign_tx(&W, chain.nonce_of(&W).await, vec![unlock(&BR1, &CAROL, 100, "e0")]).unwrap()];
            let out = chain.run_block(txs).await;
            assert!(out.response.tx_results.iter().all(|r| r.code.is_ok()));
            assert_eq!(out.prepared.len(), 4, "the unlock must be included");
        }
        let height = chain.next_height;
        let storage = chain.fixture.storage();
        let mut base = chain.begin_block_and_detach().await;
        let base_dump = Arc::new(dump_state(&base).await);
        let validators = stored_validators(&base).await.0;
        let _ = &mut base;
        Self {
            property,
            family: family_name,
            alphabet: family(family_name),
            storage,
            base: Mutex::new(base),
            base_dump,
            height,
            with_replay,
            validators_at_block_start: validators,
        }
    }

    fn fork_of(&self, node: &Node) -> StateDelta<Snapshot> {
        node.delta.lock().unwrap().fork()
    }

    fn nonce_for(&self, t: &TxT, ledger: &Ledger) -> Option<u32> {
        let current = ledger.nonces.get(&b64(&t.signer.address_bytes())).copied().unwrap_or(0);
        match t.nonce {
            NonceMode::Current => Some(current),
            NonceMode::Stale => current.checked_sub(1),
            NonceMode::Gapped => Some(current + 1),
        }
    }

    /// Executes signed bytes on a fork of `node`: the real construction + execution path.
    pub(crate) fn exec_bytes(&self, node: &Node, tx_bytes: Bytes) -> ExecOutcome {
        let checked = {
            let base = self.base.lock().unwrap().fork();
            block_on(CheckedTransaction::new(tx_bytes.clone(), &base))
        };
        if std::env::var("VERIF_TRACE").is_ok() {
            if let Err(e) = &checked {
                println!("TRACE construction error: {}", short(&format!("{e:?}")));
            }
        }
        let Ok(checked) = checked else {
            return ExecOutcome {
                constructed: false,
                result: None,
                post: None,
                tx_bytes,
            };
        };
        let fork = self.fork_of(node);
        let (result, post) = with_worker_app(&self.storage, |app| {
            let dummy = std::mem::replace(&mut app.state, Arc::new(fork));
            let r = block_on(app.execute_transaction(Arc::new(checked)));
            let post = Arc::try_unwrap(std::mem::replace(&mut app.state, dummy)).ok().expect("exclusive");
            (r.map_err(|e| format!("{e:?}")), post)
        });
        ExecOutcome {
            constructed: true,
            result: Some(result),
            post: Some(post),
            tx_bytes,
        }
    }

    fn viol(&self, property: &str, clause: &str, signature: String, detail: String) -> Violation {
        Violation {
            clause: format!("{property}/{clause}"),
            signature,
            detail,
        }
    }
}

// ---------------------------------------------------------------------------------------------
// Reference semantics of value movement and fees (written from the property statements)
// ---------------------------------------------------------------------------------------------

#[derive(Clone, Debug, PartialEq, Eq, PartialOrd, Ord)]
enum Place {
    Account(String),
    Escrow(String),
    Nowhere,
}

#[derive(Clone, Debug)]
struct Move {
    from: Place,
    to: Place,
    asset: String,
    amount: u128,
}

fn fee_key(action: &Action) -> Option<(&'static str, u128, Option<&Denom>)> {
    // (storage name, variable component, fee asset)
    Some(match action {
        Action::Transfer(a) => ("transfer", 0, Some(&a.fee_asset)),
        Action::RollupDataSubmission(a) => ("rollup_data_submission", a.data.len() as u128, Some(&a.fee_asset)),
        Action::BridgeLock(a) => (
            "bridge_lock",
            (a.asset.to_string().len() + a.destination_chain_address.len() + 16) as u128,
            Some(&a.fee_asset),
        ),
        Action::BridgeUnlock(a) => ("bridge_unlock", 0, Some(&a.fee_asset)),
        Action::BridgeTransfer(a) => ("bridge_transfer", 0, Some(&a.fee_asset)),
        Action::BridgeSudoChange(a) => ("bridge_sudo_change", 0, Some(&a.fee_asset)),
        Action::InitBridgeAccount(a) => ("init_bridge_account", 0, Some(&a.fee_asset)),
        Action::Ics20Withdrawal(a) => ("ics20_withdrawal", 0, Some(&a.fee_asset)),
        Action::ValidatorUpdate(_) => ("validator_update", 0, None),
        Action::SudoAddressChange(_) => ("sudo_address_change", 0, None),
        Action::FeeChange(_) => ("fee_change", 0, None),
        Action::FeeAssetChange(_) => ("fee_asset_change", 0, None),
        Action::IbcSudoChange(_) => ("ibc_sudo_change", 0, None),
        Action::IbcRelayerChange(_) => ("ibc_relayer_change", 0, None),
        _ => return None,
    })
}

fn stored_fee_components(pre: &Dump, name: &str) -> Option<(u128, u128)> {
    let v = pre.verifiable.get(&format!("fees/{name}"))?;
    if v.len() < 32 {
        return None;
    }
    let base = u128::from_le_bytes(v[v.len() - 32..v.len() - 16].try_into().unwrap());
    let mult = u128::from_le_bytes(v[v.len() - 16..].try_into().unwrap());
    Some((base, mult))
}

/// Expected `tx.fees` entries (position, asset key, amount); `Err` if a fee is not representable
/// in u128 (then the transaction must not succeed).
fn expected_fees(pre: &Dump, actions: &[Action]) -> Result<Vec<(u64, String, u128)>, String> {
    let mut out = Vec::new();
    for (pos, a) in actions.iter().enumerate() {
        let Some((name, variable, fee_asset)) = fee_key(a) else {
            continue;
        };
        let Some(fee_asset) = fee_asset else {
            continue;
        };
        let Some((base, mult)) = stored_fee_components(pre, name) else {
            return Err(format!("no fee components stored for {name}"));
        };
        let amount = mult
            .checked_mul(variable)
            .and_then(|v| v.checked_add(base))
            .ok_or_else(|| format!("fee {base} + {mult} x {variable} for {name} exceeds u128"))?;
        out.push((pos as u64, asset_key(fee_asset), amount));
    }
    Ok(out)
}

fn bridge_asset_key(pre_state: &StateDelta<Snapshot>, bridge: &Address) -> Option<String> {
    block_on(pre_state.get_bridge_account_ibc_asset(bridge)).ok().map(|a| a.to_string())
}

/// Value movements a *successful* execution of `actions` by `signer` must perform.
fn expected_moves(pre_state: &StateDelta<Snapshot>, signer: &[u8; 20], actions: &[Action]) -> Vec<Move> {
    let me = Place::Account(b64(signer));
    let acct = |a: &Address| Place::Account(b64(&a.bytes()));
    let mut moves = Vec::new();
    for a in actions {
        match a {
            Action::Transfer(t) => moves.push(Move {
                from: me.clone(),
                to: acct(&t.to),
                asset: asset_key(&t.asset),
                amount: t.amount,
            }),
            Action::BridgeLock(l) => moves.push(Move {
                from: me.clone(),
                to: acct(&l.to),
                asset: asset_key(&l.asset),
                amount: l.amount,
            }),
            Action::BridgeUnlock(u) => moves.push(Move {
                from: acct(&u.bridge_address),
                to: acct(&u.to),
                asset: bridge_asset_key(pre_state, &u.bridge_address).unwrap_or_default(),
                amount: u.amount,
            }),
            Action::BridgeTransfer(t) => moves.push(Move {
                from: acct(&t.bridge_address),
                to: acct(&t.to),
                asset: bridge_asset_key(pre_state, &t.bridge_address).unwrap_or_default(),
                amount: t.amount,
            }),
            _ => {}
        }
    }
    moves
}

fn fee_events(events: &[tendermint::abci::Event]) -> Vec<(u64, String, u128)> {
    let mut out = Vec::new();
    for e in events {
        if e.kind != "tx.fees" {
            continue;
        }
        let get = |k: &str| -> String {
            e.attributes
                .iter()
                .find(|a| a.key_str().ok() == Some(k))
                .and_then(|a| a.value_str().ok())
                .unwrap_or_default()
                .to_string()
        };
        out.push((
            get("positionInTransaction").parse().unwrap_or(u64::MAX),
            get("asset"),
            get("feeAmount").parse().unwrap_or(u128::MAX),
        ));
    }
    out.sort();
    out
}

type Deltas = BTreeMap<(Place, String), Wide>;

fn actual_deltas(pre: &Ledger, post: &Ledger, pre_fees: &BTreeMap<String, u128>, post_fees: &BTreeMap<String, u128>) -> (Deltas, BTreeMap<String, Wide>) {
    let mut d: Deltas = BTreeMap::new();
    let diff = |a: u128, b: u128| -> Wide { Wide::diff(a, b) };
    let keys: BTreeSet<&(String, String)> = pre.balances.keys().chain(post.balances.keys()).collect();
    for k in keys {
        let (a, b) = (pre.balances.get(k).copied().unwrap_or(0), post.balances.get(k).copied().unwrap_or(0));
        if a != b {
            d.insert((Place::Account(k.0.clone()), k.1.clone()), diff(a, b));
        }
    }
    let keys: BTreeSet<&(String, String)> = pre.escrow.keys().chain(post.escrow.keys()).collect();
    for k in keys {
        let (a, b) = (pre.escrow.get(k).copied().unwrap_or(0), post.escrow.get(k).copied().unwrap_or(0));
        if a != b {
            d.insert((Place::Escrow(k.0.clone()), k.1.clone()), diff(a, b));
        }
    }
    let mut f = BTreeMap::new();
    let keys: BTreeSet<&String> = pre_fees.keys().chain(post_fees.keys()).collect();
    for k in keys {
        let (a, b) = (pre_fees.get(k).copied().unwrap_or(0), post_fees.get(k).copied().unwrap_or(0));
        if a != b {
            f.insert(k.clone(), diff(a, b));
        }
    }
    (d, f)
}

fn addr_tail(v: &[u8]) -> Option<[u8; 20]> {
    (v.len() >= 20).then(|| v[v.len() - 20..].try_into().unwrap())
}

// ---------------------------------------------------------------------------------------------
// Oracles
// ---------------------------------------------------------------------------------------------

impl TModel {
    /// Oracles for one executed transaction. `ok` = execution result.
    fn judge_tx(
        &self,
        t_name: &str,
        signer: &[u8; 20],
        actions: &[Action],
        nonce_mode: NonceMode,
        is_replay: bool,
        pre_state: &StateDelta<Snapshot>,
        pre: &Dump,
        post: &Dump,
        result: &Result<Vec<tendermint::abci::Event>, String>,
    ) -> Option<Violation> {
        let pre_l = pre.ledger();
        let post_l = post.ledger();
        let signer_b64 = b64(signer);
        match result {
            Err(err) => {
                // C03: a failing transaction leaves no trace at all
                if pre != post {
                    let keys = pre.diff_keys(post);
                    let what = if !keys.is_empty() {
                        format!("state keys {:?}", keys.iter().take(4).collect::<Vec<_>>())
                    } else if pre.block_fees != post.block_fees {
                        "block fees".to_string()
                    } else {
                        "cached deposits".to_string()
                    };
                    return Some(self.viol(
                        "C03",
                        "failed-tx-leaves-no-trace",
                        format!("{} changed by a failed transaction", what.split(' ').next().unwrap_or("")),
                        format!("{t_name} failed ({}) but changed {what}", short(err)),
                    ));
                }
                None
            }
            Ok(events) => {
                // C03: nonce discipline
                let pre_n = pre_l.nonces.get(&signer_b64).copied().unwrap_or(0);
                let post_n = post_l.nonces.get(&signer_b64).copied().unwrap_or(0);
                if nonce_mode != NonceMode::Current {
                    return Some(self.viol(
                        "C03",
                        "nonce-order",
                        format!("{nonce_mode:?} nonce executed"),
                        format!("{t_name}: a transaction whose nonce is not the signer's current nonce {pre_n} took effect"),
                    ));
                }
                if is_replay {
                    return Some(self.viol(
                        "C03",
                        "at-most-once",
                        "replayed transaction executed again".into(),
                        format!("{t_name}: the exact bytes of an already executed transaction took effect a second time"),
                    ));
                }
                if post_n != pre_n.wrapping_add(1) {
                    return Some(self.viol(
                        "C03",
                        "nonce-order",
                        "nonce not raised by exactly one".into(),
                        format!("{t_name}: signer nonce {pre_n} -> {post_n}"),
                    ));
                }
                for (acct, n) in &post_l.nonces {
                    if *acct != signer_b64 && pre_l.nonces.get(acct).copied().unwrap_or(0) != *n {
                        return Some(self.viol(
                            "C03",
                            "nonce-order",
                            "foreign nonce changed".into(),
                            format!("{t_name}: nonce of {acct} changed by a transaction it did not sign"),
                        ));
                    }
                }

                // C01: fees exact, per event
                let got_fees = fee_events(events);
                match expected_fees(pre, actions) {
                    Err(why) => {
                        return Some(self.viol(
                            "C01",
                            "fee-exact",
                            "unrepresentable fee charged".into(),
                            format!("{t_name} succeeded although {why}; fee events {got_fees:?}"),
                        ));
                    }
                    Ok(mut want) => {
                        want.sort();
                        if want != got_fees {
                            return Some(self.viol(
                                "C01",
                                "fee-exact",
                                "fee events differ from base + multiplier x size".into(),
                                format!("{t_name}: fee events {got_fees:?}, expected from the stored schedule {want:?}"),
                            ));
                        }
                    }
                }

                // C01: every balance / escrow / block-fee change is explained by the action
                // parameters and the fees (reference value movement), for every account and asset
                let (actual, fee_deltas) = actual_deltas(&pre_l, &post_l, &pre.block_fees, &post.block_fees);
                let mut want: Deltas = BTreeMap::new();
                let mut want_fees: BTreeMap<String, Wide> = BTreeMap::new();
                for (_, asset, amount) in &got_fees {
                    let amt = Wide::from_u128(*amount);
                    let e = want.entry((Place::Account(signer_b64.clone()), asset.clone())).or_insert(Wide::ZERO);
                    *e = e.sub(amt);
                    let e = want_fees.entry(asset.clone()).or_insert(Wide::ZERO);
                    *e = e.add(amt);
                }
                let has_ics20 = actions.iter().any(|a| matches!(a, Action::Ics20Withdrawal(_) | Action::Ibc(_)));
                for m in expected_moves(pre_state, signer, actions) {
                    let amt = Wide::from_u128(m.amount);
                    if m.from != Place::Nowhere {
                        let e = want.entry((m.from.clone(), m.asset.clone())).or_insert(Wide::ZERO);
                        *e = e.sub(amt);
                    }
                    if m.to != Place::Nowhere {
                        let e = want.entry((m.to.clone(), m.asset.clone())).or_insert(Wide::ZERO);
                        *e = e.add(amt);
                    }
                }
                want.retain(|_, v| !v.is_zero());
                want_fees.retain(|_, v| !v.is_zero());
                if !has_ics20 && (actual != want || fee_deltas != want_fees) {
                    return Some(self.viol(
                        "C01",
                        "value-movement",
                        "balance changes differ from the action's transfers and fees".into(),
                        format!(
                            "{t_name}: actual balance deltas {} block-fee deltas {fee_deltas:?}; expected {} fees {want_fees:?}",
                            render_deltas(&actual),
                            render_deltas(&want)
                        ),
                    ));
                }
                // C01: conservation per asset (accounts + escrow + block fees)
                let mut per_asset: BTreeMap<String, Wide> = BTreeMap::new();
                for ((_, asset), v) in &actual {
                    let e = per_asset.entry(asset.clone()).or_insert(Wide::ZERO);
                    *e = e.add(*v);
                }
                for (asset, v) in &fee_deltas {
                    let e = per_asset.entry(asset.clone()).or_insert(Wide::ZERO);
                    *e = e.add(*v);
                }
                per_asset.retain(|_, v| !v.is_zero());
                if !has_ics20 && !per_asset.is_empty() {
                    return Some(self.viol(
                        "C01",
                        "conservation",
                        "total supply changed".into(),
                        format!("{t_name}: sum over balances + escrow + block fees changed by {per_asset:?}"),
                    ));
                }

                // C02: who lost funds, who changed privileged state
                if let Some(v) = self.judge_authority(t_name, signer, pre, post, &pre_l, &post_l, actions) {
                    return Some(v);
                }
                // C04: deposits and withdrawal events
                if let Some(v) = self.judge_bridge(t_name, signer, pre_state, pre, post, actions) {
                    return Some(v);
                }
                None
            }
        }
    }

    fn judge_authority(
        &self,
        t_name: &str,
        signer: &[u8; 20],
        pre: &Dump,
        post: &Dump,
        pre_l: &Ledger,
        post_l: &Ledger,
        actions: &[Action],
    ) -> Option<Violation> {
        let signer_b64 = b64(signer);
        let stored_addr = |key: &str| -> Option<[u8; 20]> { pre.verifiable.get(key).and_then(|v| addr_tail(v)) };
        for ((acct, asset), before) in &pre_l.balances {
            let after = post_l.balances.get(&(acct.clone(), asset.clone())).copied().unwrap_or(0);
            if after < *before && *acct != signer_b64 {
                let is_bridge = pre.verifiable.contains_key(&format!("bridge/account/{acct}/rollup_id"));
                let withdrawer = stored_addr(&format!("bridge/withdrawer/{acct}"));
                if !(is_bridge && withdrawer == Some(*signer)) {
                    return Some(self.viol(
                        "C02",
                        "funds-only-by-owner",
                        "balance of a foreign account decreased".into(),
                        format!(
                            "{t_name}: balance of {acct} ({asset}) fell {before} -> {after}; signer {} is neither the owner nor its bridge withdrawer",
                            name_of(signer)
                        ),
                    ));
                }
            }
        }
        let sudo = stored_addr("authority/sudo");
        let ibc_sudo = stored_addr("ibc/sudo");
        for key in pre.diff_keys(post) {
            let need: Option<(&str, Option<[u8; 20]>)> = if key == "authority/sudo"
                || key.starts_with("fees/")
                || key.starts_with("authority/validator")
                || key.starts_with("nv:authority/validator")
                || key.starts_with("price_feed/")
            {
                Some(("sudo address", sudo))
            } else if key == "ibc/sudo" {
                // who is IBC sudo is decided by the chain's sudo address (checked_actions/ibc_sudo_change.rs)
                Some(("sudo address", sudo))
            } else if key.starts_with("ibc/relayer/") {
                Some(("IBC sudo address", ibc_sudo))
            } else if let Some(b) = key.strip_prefix("bridge/sudo/").or_else(|| key.strip_prefix("bridge/withdrawer/")) {
                bridge_admin_authority(pre, b, signer)
            } else if let Some(rest) = key.strip_prefix("bridge/account/") {
                let (b, field) = rest.split_once('/').unwrap_or((rest, ""));
                if field.starts_with("withdrawal_event/") {
                    Some(("bridge withdrawer", stored_addr(&format!("bridge/withdrawer/{b}"))))
                } else if field == "disabled" || field == "rollup_id" || field == "asset_id" {
                    bridge_admin_authority(pre, b, signer)
                } else {
                    // last transaction id: written when the bridge account itself signs
                    Some(("bridge account itself", decode_b64_addr(b)))
                }
            } else {
                None
            };
            if let Some((who, holder)) = need {
                if holder != Some(*signer) {
                    return Some(self.viol(
                        "C02",
                        "privileged-state-only-by-authority",
                        format!("{} changed without the {who}", key_class(&key)),
                        format!(
                            "{t_name}: key {key} changed by signer {} but the {who} in the pre-state is {}",
                            name_of(signer),
                            holder.map(|h| name_of(&h)).unwrap_or_else(|| "unset".into())
                        ),
                    ));
                }
            }
        }
        let _ = actions;
        None
    }

    /// Hex id (sha256 of the signed bytes) of the transaction being judged on this thread.
    fn current_tx_id() -> String {
        CURRENT_TX_ID.with(|c| c.borrow().clone())
    }

    fn judge_bridge(
        &self,
        t_name: &str,
        signer: &[u8; 20],
        pre_state: &StateDelta<Snapshot>,
        pre: &Dump,
        post: &Dump,
        actions: &[Action],
    ) -> Option<Violation> {
        let _ = signer;
        // deposits published by this transaction
        let mut new_deposits: Vec<String> = post.deposits.clone();
        for d in &pre.deposits {
            if let Some(pos) = new_deposits.iter().position(|x| x == d) {
                new_deposits.remove(pos);
            }
        }
        // (bridge hex, amount, dest, rollup id hex of the credited bridge, its asset, tx id, action index)
        type Dep = (String, u128, String, String, String, String, String);
        let tx_id = Self::current_tx_id();
        let bridge_field = |bridge: &[u8; 20], field: &str| -> String {
            pre.verifiable.get(&format!("bridge/account/{}/{field}", b64(bridge))).map(|v| report::hex(&v[v.len().saturating_sub(32)..])).unwrap_or_default()
        };
        let mut want: Vec<Dep> = Vec::new();
        for (idx, a) in actions.iter().enumerate() {
            let (to, amount, dest) = match a {
                Action::BridgeLock(l) => (l.to.bytes(), l.amount, l.destination_chain_address.clone()),
                Action::BridgeTransfer(t) => (t.to.bytes(), t.amount, t.destination_chain_address.clone()),
                _ => continue,
            };
            want.push((
                report::hex(&to),
                amount,
                dest,
                bridge_field(&to, "rollup_id"),
                bridge_field(&to, "asset_id"),
                tx_id.clone(),
                idx.to_string(),
            ));
        }
        let mut got: Vec<Dep> = new_deposits
            .iter()
            .map(|d| {
                let field = |k: &str| -> String {
                    d.split(' ')
                        .find_map(|kv| kv.strip_prefix(&format!("{k}=")))
                        .unwrap_or_default()
                        .to_string()
                };
                let asset = field("asset").parse::<Denom>().map(|d| report::hex(d.to_ibc_prefixed().as_bytes())).unwrap_or_default();
                (field("bridge"), field("amount").parse().unwrap_or(0), field("dest"), field("rollup"), asset, field("tx"), field("idx"))
            })
            .collect();
        want.sort();
        got.sort();
        if want != got {
            return Some(self.viol(
                "C04",
                "deposit-backed",
                "published deposits differ from the credited locks".into(),
                format!("{t_name}: deposits published {got:?}, locks / bridge transfers executed {want:?}"),
            ));
        }
        // withdrawal event ids are single use per bridge account
        for a in actions {
            let (bridge, event) = match a {
                Action::BridgeUnlock(u) => (u.bridge_address, u.rollup_withdrawal_event_id.clone()),
                Action::BridgeTransfer(t) => (t.bridge_address, t.rollup_withdrawal_event_id.clone()),
                _ => continue,
            };
            let used = block_on(pre_state.get_withdrawal_event_rollup_block_number(&bridge, &event))
                .ok()
                .flatten()
                .is_some();
            let key_prefix = format!("bridge/account/{}/withdrawal_event/", b64(&bridge.bytes()));
            let recorded_after = post.verifiable.keys().any(|k| k.starts_with(&key_prefix) && k.ends_with(&event));
            if used {
                return Some(self.viol(
                    "C04",
                    "withdrawal-once",
                    "withdrawal event id honoured twice".into(),
                    format!("{t_name}: event id `{event}` of bridge {} was already used and was honoured again", name_of(&bridge.bytes())),
                ));
            }
            if !recorded_after {
                return Some(self.viol(
                    "C04",
                    "withdrawal-once",
                    "honoured withdrawal event id not recorded".into(),
                    format!("{t_name}: event id `{event}` of bridge {} was paid out but is not recorded as used", name_of(&bridge.bytes())),
                ));
            }
        }
        None
    }

    fn judge_end_block(
        &self,
        pre: &Dump,
        post: &Dump,
        updates: &[tendermint::validator::Update],
        post_state: &StateDelta<Snapshot>,
    ) -> Option<Violation> {
        // C01: the block's fees go to the fee recipient (sudo address at block end), nothing else moves
        let recipient = pre.verifiable.get("authority/sudo").and_then(|v| addr_tail(v)).map(|a| b64(&a)).unwrap_or_default();
        let (actual, _) = actual_deltas(&pre.ledger(), &post.ledger(), &BTreeMap::new(), &BTreeMap::new());
        let mut want: Deltas = BTreeMap::new();
        for (asset, amount) in &pre.block_fees {
            if *amount != 0 {
                want.insert(
                    (Place::Account(recipient.clone()), asset.clone()),
                    Wide::from_u128(*amount),
                );
            }
        }
        if actual != want {
            return Some(self.viol(
                "C01",
                "fees-routed-at-block-end",
                "fee recipient not credited exactly the block's fees".into(),
                format!(
                    "end_block: balance deltas {}; the block's accumulated fees {:?} should go to the sudo address {}",
                    render_deltas(&actual),
                    pre.block_fees,
                    recipient
                ),
            ));
        }
        // C14: fold the returned updates over what CometBFT holds; compare with the stored set
        let mut comet = self.validators_at_block_start.clone();
        for u in updates {
            let key_bytes = u.pub_key.to_bytes();
            let vk = astria_core::crypto::VerificationKey::try_from(key_bytes.as_slice()).expect("ed25519 key");
            let a = *vk.address_bytes();
            if u.power.value() == 0 {
                if comet.remove(&a).is_none() {
                    return Some(self.viol(
                        "C14",
                        "updates-applicable",
                        "update batch removes a validator CometBFT does not have".into(),
                        format!("end_block returned a removal of {} which is not in CometBFT's validator set", name_of(&a)),
                    ));
                }
            } else {
                comet.insert(a, u32::try_from(u.power.value()).unwrap_or(u32::MAX));
            }
        }
        if comet.is_empty() {
            // the legacy (pre-Aspen) path is named in the signature so that the listed known
            // finding cannot hide the same symptom on the current storage layout
            let legacy = self.family == "validators-pre-aspen";
            return Some(self.viol(
                "C14",
                "updates-applicable",
                if legacy {
                    "pre-Aspen chain: update batch empties the validator set".into()
                } else {
                    "update batch empties the validator set".into()
                },
                "applying the returned updates leaves CometBFT without validators".into(),
            ));
        }
        let (stored, count) = block_on(stored_validators(post_state));
        if stored != comet {
            let render = |m: &BTreeMap<[u8; 20], u32>| m.iter().map(|(a, p)| format!("{}:{p}", name_of(a))).collect::<Vec<_>>();
            return Some(self.viol(
                "C14",
                "mirror",
                "stored validator set differs from the folded updates".into(),
                format!("CometBFT's set after the updates {:?}, the application stores {:?}", render(&comet), render(&stored)),
            ));
        }
        if count != stored.len() as u64 {
            return Some(self.viol(
                "C14",
                "mirror",
                "validator count differs from the set size".into(),
                format!("stored count {count}, stored set size {}", stored.len()),
            ));
        }
        None
    }
}

/// The validator set the application stores (legacy single-value set before Aspen, one entry per
/// validator plus a count after it) and its count (the set size before Aspen).
async fn stored_validators(state: &StateDelta<Snapshot>) -> (BTreeMap<[u8; 20], u32>, u64) {
    let mut stored = BTreeMap::new();
    if crate::checked_actions::use_pre_aspen_validator_updates(state).await.expect("upgrade status") {
        let set = state.pre_aspen_get_validator_set().await.expect("legacy validator set");
        for v in set.updates() {
            stored.insert(*v.verification_key.address_bytes(), v.power);
        }
        let n = stored.len() as u64;
        return (stored, n);
    }
    let mut stream = state.get_validators();
    while let Some(v) = stream.next().await {
        let v = v.expect("validator entry");
        stored.insert(*v.verification_key.address_bytes(), v.power);
    }
    drop(stream);
    (stored, state.get_validator_count().await.unwrap_or(u64::MAX))
}

thread_local! {
    static CURRENT_TX_ID: std::cell::RefCell<String> = const { std::cell::RefCell::new(String::new()) };
}

fn bridge_admin_authority<'a>(pre: &Dump, b: &str, signer: &[u8; 20]) -> Option<(&'a str, Option<[u8; 20]>)> {
    let existed = pre.verifiable.contains_key(&format!("bridge/account/{b}/rollup_id"));
    if existed {
        Some(("bridge sudo address", pre.verifiable.get(&format!("bridge/sudo/{b}")).and_then(|v| addr_tail(v))))
    } else {
        // creation: only the account itself may become a bridge account
        let _ = signer;
        Some(("account itself (bridge creation)", decode_b64_addr(b)))
    }
}

fn decode_b64_addr(b: &str) -> Option<[u8; 20]> {
    use base64::{
        engine::general_purpose::URL_SAFE,
        Engine as _,
    };
    URL_SAFE.decode(b).ok().and_then(|v| v.try_into().ok())
}

fn key_class(key: &str) -> String {
    let k = key.trim_start_matches("nv:");
    let mut parts = k.split('/');
    let a = parts.next().unwrap_or("");
    let b = parts.next().unwrap_or("");
    if a == "bridge" && b == "account" {
        let field = k.rsplit('/').next().unwrap_or("");
        return format!("bridge/account/*/{}", if k.contains("withdrawal_event") { "withdrawal_event" } else { field });
    }
    format!("{a}/{}", b.split('_').next().unwrap_or(b))
}

fn short(s: &str) -> String {
    s.chars().take(160).collect()
}

fn render_deltas(d: &Deltas) -> String {
    let mut parts = Vec::new();
    for ((place, asset), v) in d {
        let who = match place {
            Place::Account(a) => decode_b64_addr(a).map(|x| name_of(&x)).unwrap_or_else(|| a.clone()),
            Place::Escrow(c) => format!("escrow:{c}"),
            Place::Nowhere => "-".into(),
        };
        parts.push(format!("{who}[{}]{v}", &asset[..asset.len().min(12)]));
    }
    format!("{{{}}}", parts.join(", "))
}

impl Model for TModel {
    type Ev = Ev;
    type St = Node;

    fn init(&self) -> Node {
        Node {
            delta: Mutex::new(self.base.lock().unwrap().fork()),
            dump: self.base_dump.clone(),
            recent_ok: Vec::new(),
            ended: false,
        }
    }

    fn enabled(&self, st: &Node, _hist: &[Ev]) -> Vec<Ev> {
        if st.ended {
            return Vec::new();
        }
        let mut v: Vec<Ev> = (0..self.alphabet.len()).map(Ev::Tx).collect();
        if self.with_replay {
            for k in 0..st.recent_ok.len() {
                v.push(Ev::Replay(k));
            }
        }
        v.push(Ev::EndBlock);
        v
    }

    fn step(&self, st: &Node, _hist: &[Ev], ev: &Ev) -> Step<Node> {
        let pre = st.dump.clone();
        match ev {
            Ev::EndBlock => {
                let fork = self.fork_of(st);
                let sudo = block_on(fork.get_sudo_address()).expect("sudo address");
                let (resp, mut post_state) = with_worker_app(&self.storage, |app| {
                    let dummy = std::mem::replace(&mut app.state, Arc::new(fork));
                    let r = block_on(app.end_block(self.height, &sudo));
                    let post = Arc::try_unwrap(std::mem::replace(&mut app.state, dummy)).ok().expect("exclusive");
                    (r, post)
                });
                let resp = match resp {
                    Ok(r) => r,
                    Err(e) => {
                        if self.property != "C01" {
                            return Step::Skip;
                        }
                        return Step::Violated(self.viol(
                            "C01",
                            "end-block-total",
                            "end_block fails".into(),
                            format!("end_block returned an error on a block of successfully executed transactions: {e:?}"),
                        ));
                    }
                };
                let post = Arc::new(block_on(dump_state(&post_state)));
                if let Some(v) = self.judge_end_block(&pre, &post, &resp.validator_updates, &post_state) {
                    if v.clause.starts_with(self.property) {
                        return Step::Violated(v);
                    }
                }
                if self.property == "C14" {
                    // the next (empty) block must not hand CometBFT anything again: end_block once
                    // more on a fork of the post state
                    let fork2 = post_state.fork();
                    let sudo2 = block_on(fork2.get_sudo_address()).expect("sudo address");
                    let again = with_worker_app(&self.storage, |app| {
                        let dummy = std::mem::replace(&mut app.state, Arc::new(fork2));
                        let r = block_on(app.end_block(self.height + 1, &sudo2));
                        let _ = std::mem::replace(&mut app.state, dummy);
                        r
                    });
                    match again {
                        Ok(r2) if !r2.validator_updates.is_empty() => {
                            return Step::Violated(self.viol(
                                "C14",
                                "updates-applicable",
                                "validator updates of a block are returned again by the next block".into(),
                                format!(
                                    "an empty block after this one returns {:?} to CometBFT again",
                                    r2.validator_updates.iter().map(|u| format!("{}:{}", report::hex(&u.pub_key.to_bytes()[..4]), u.power.value())).collect::<Vec<_>>()
                                ),
                            ));
                        }
                        _ => {}
                    }
                }
                Step::Next(Node {
                    delta: Mutex::new(post_state),
                    dump: post,
                    recent_ok: st.recent_ok.clone(),
                    ended: true,
                })
            }
            Ev::Tx(_) | Ev::Replay(_) => {
                let (t_name, signer, actions, nonce_mode, bytes, is_replay) = match ev {
                    Ev::Tx(i) => {
                        let t = &self.alphabet[*i];
                        let Some(nonce) = self.nonce_for(t, &pre.ledger()) else {
                            return Step::Skip;
                        };
                        let Some(bytes) = sign_tx(&t.signer, nonce, t.actions.clone()) else {
                            return Step::Skip;
                        };
                        (t.name.clone(), t.signer.address_bytes(), t.actions.clone(), t.nonce, bytes, false)
                    }
                    Ev::Replay(k) => {
                        let bytes = st.recent_ok[*k].clone();
                        let (signer, actions) = decode_signed(&bytes);
                        (format!("replay#{k}"), signer, actions, NonceMode::Current, bytes, true)
                    }
                    Ev::EndBlock => unreachable!(),
                };
                let out = self.exec_bytes(st, bytes);
                if std::env::var("VERIF_TRACE").is_ok() {
                    println!(
                        "TRACE {:?} + {t_name}: constructed={} result={:?}",
                        _hist.iter().map(|e| ev_json(self, e).render()).collect::<Vec<_>>(),
                        out.constructed,
                        out.result.as_ref().map(|r| r.as_ref().map(|e| e.len()).map_err(|e| short(e)))
                    );
                }
                if !out.constructed {
                    // rejected before execution: no state, nothing to compare
                    return Step::Skip;
                }
                let post_state = out.post.unwrap();
                let result = out.result.unwrap();
                let post = Arc::new(block_on(dump_state(&post_state)));
                let pre_state = self.fork_of(st);
                CURRENT_TX_ID.with(|c| {
                    use sha2::Digest as _;
                    *c.borrow_mut() = report::hex(&sha2::Sha256::digest(&out.tx_bytes));
                });
                if let Some(v) =
                    self.judge_tx(&t_name, &signer, &actions, nonce_mode, is_replay, &pre_state, &pre, &post, &result)
                {
                    if v.clause.starts_with(self.property) {
                        return Step::Violated(v);
                    }
                }
                let mut recent_ok = st.recent_ok.clone();
                if result.is_ok() && self.with_replay {
                    recent_ok.insert(0, out.tx_bytes);
                    recent_ok.truncate(2);
                }
                Step::Next(Node {
                    delta: Mutex::new(post_state),
                    dump: post,
                    recent_ok,
                    ended: false,
                })
            }
        }
    }

    fn canon(&self, st: &Node) -> u128 {
        report::h128(&(&*st.dump, &st.recent_ok, st.ended))
    }

    fn outcome(&self, st: &Node) -> u64 {
        report::h64(&(st.dump.block_fees.len(), st.dump.deposits.len(), st.ended, st.dump.verifiable.len()))
    }
}

fn decode_signed(bytes: &Bytes) -> ([u8; 20], Vec<Action>) {
    use astria_core::{
        generated::astria::protocol::transaction::v1 as raw,
        protocol::transaction::v1::Transaction,
        Protobuf as _,
    };
    use prost::Message as _;
    let tx = Transaction::try_from_raw(raw::Transaction::decode(bytes.clone()).unwrap()).unwrap();
    (*tx.verification_key().address_bytes(), tx.actions().to_vec())
}

fn ev_json(m: &TModel, ev: &Ev) -> J {
    match ev {
        Ev::Tx(i) => J::s(format!("tx:{}", m.alphabet[*i].name)),
        Ev::Replay(k) => J::s(format!("replay:{k}")),
        Ev::EndBlock => J::s("end_block"),
    }
}

fn ev_parse(m: &TModel, s: &str) -> Ev {
    if s == "end_block" {
        return Ev::EndBlock;
    }
    if let Some(k) = s.strip_prefix("replay:") {
        return Ev::Replay(k.parse().unwrap());
    }
    let name = s.strip_prefix("tx:").expect("tx:<name>");
    Ev::Tx(m.alphabet.iter().position(|t| t.name == name).expect("known tx name"))
}

/// Runs the T-level exploration for `property` over `families`, reporting only that property's
/// clauses.
pub(crate) fn run_tlevel(property: &'static str, stage: &str, families: &[&'static str], quick_depth: usize, thorough_depth: usize, with_replay: bool) {
    let mut rep = Report::new(property, stage);
    let thorough = report::tier() == Tier::Thorough;
    let depth = if thorough { thorough_depth } else { quick_depth };
    if let Some(case) = report::load_replay(property, stage) {
        let fam: &'static str = families
            .iter()
            .copied()
            .find(|f| Some(*f) == case.get("family").and_then(J::as_str))
            .expect("family of the replayed case");
        let m = block_on(TModel::build(property, fam, with_replay));
        let hist: Vec<Ev> =
            case.get("history").and_then(J::as_arr).unwrap().iter().map(|j| ev_parse(&m, j.as_str().unwrap())).collect();
        let a = explore::replay(&m, &hist);
        let b = explore::replay(&m, &hist);
        assert_eq!(format!("{a:?}"), format!("{b:?}"), "uncontrolled nondeterminism in replay");
        println!("REPLAY {a:?}");
        if let Ok(Some(v)) = a {
            rep.finding(Finding {
                clause: v.clause,
                signature: v.signature,
                detail: v.detail,
                case,
            });
        }
        rep.finish();
        return;
    }
    rep.rule(&format!(
        "T-level BFS inside one block: every sequence of <= {depth} events over the transaction alphabets {families:?} \
         (+ replays of the last two successful transactions: {with_replay}; + end_block), each executed by the real \
         CheckedTransaction::new + App::execute_transaction / App::end_block on a fork of the real block state; \
         states deduplicated on the full state dump (verifiable, nonverifiable, block fees, cached deposits); oracles \
         of {property} evaluated on every transition"
    ));
    let mut outcomes = 0usize;
    for fam in families.iter().copied() {
        let m = block_on(TModel::build(property, fam, with_replay));
        let out = explore::explore(
            &m,
            &Config {
                max_depth: depth,
                workers: report::workers(),
                time_cap: std::time::Duration::from_secs(if thorough { 3000 } else { 240 }),
                ..Config::default()
            },
        );
        println!(
            "NOTE {property} family={fam} alphabet={} depth={depth}: states={} transitions={} skipped={} outcomes={} per_depth={:?} violations={}",
            m.alphabet.len(),
            out.states,
            out.transitions,
            out.skipped,
            out.distinct_outcomes,
            out.per_depth_states,
            out.violations.len()
        );
        rep.add("states", out.states);
        rep.add("transitions", out.transitions);
        rep.add("traces_validated_against_impl", out.transitions);
        rep.add("rejected_at_construction", out.skipped);
        outcomes = outcomes.max(out.distinct_outcomes);
        if let Some(cap) = &out.cap_hit {
            rep.cap_hit(cap);
        }
        for v in &out.violations {
            let a = explore::replay(&m, &v.history);
            let b = explore::replay(&m, &v.history);
            assert_eq!(format!("{a:?}"), format!("{b:?}"), "uncontrolled nondeterminism");
            rep.finding(Finding {
                clause: v.violation.clause.clone(),
                signature: v.violation.signature.clone(),
                detail: format!(
                    "{} | history: {:?}",
                    v.violation.detail,
                    v.history.iter().map(|e| ev_json(&m, e).render()).collect::<Vec<_>>()
                ),
                case: J::obj()
                    .with("family", J::s(fam))
                    .with("history", J::arr(v.history.iter().map(|e| ev_json(&m, e)))),
            });
        }
        for h in out.sample_histories.iter().take(3) {
            rep.sample(J::obj().with("family", J::s(fam)).with("history", J::arr(h.iter().map(|e| ev_json(&m, e)))));
        }
    }
    rep.add("distinct_outcomes", outcomes);
    rep.set_extra("depth", J::i(depth));
    rep.assume("transactions are constructed against the state at the start of the block, as ProcessProposal and FinalizeBlock do");
    rep.assume("fee components and bridge metadata of the pre-state are read through the crate's storage getters; the arithmetic and the movement rules are the harness's own");
    rep.finish();
}

#[test]
fn verif_c01_tlevel() {
    run_tlevel("C01", "tlevel", &["transfer", "bridge"], 5, 7, false);
}

#[test]
fn verif_c02_tlevel() {
    run_tlevel("C02", "tlevel", &["authority", "bridge"], 5, 7, false);
}

#[test]
fn verif_c03_tlevel() {
    run_tlevel("C03", "tlevel", &["transfer", "bridge"], 4, 6, true);
}

#[test]
fn verif_c04_tlevel() {
    run_tlevel("C04", "tlevel", &["bridge"], 5, 8, false);
}

#[test]
fn verif_c14_tlevel() {
    run_tlevel("C14", "tlevel", &["authority", "validators-pre-aspen"], 5, 8, false);
}
