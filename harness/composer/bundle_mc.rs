// C16 — Composer bundles each accepted transaction once, in order, within the size limit.
// Explicit-state search over the real `BundleFactory` (private fields reachable from this child
// module): every operation sequence up to a depth over a size alphabet around the limit, against
// a list reference model.
#![allow(clippy::all, clippy::pedantic, dead_code)]

#[path = "/verif/engine/mod.rs"]
mod engine;

use std::collections::VecDeque;

use astria_core::{
    primitive::v1::RollupId,
    protocol::transaction::v1::{
        action::RollupDataSubmission,
        Action,
    },
};
use engine::{
    explore::{
        self,
        Config,
        Model,
        Step,
        Violation,
    },
    json::J,
    report::{
        self,
        catch_quiet,
        Finding,
        Report,
        Tier,
    },
};

use super::{
    BundleFactory,
    BundleFactoryError,
    SizedBundle,
};

/// The reference size: prost's own length of the raw message, independent of the crate's
/// `encoded_len` (which is part of what is checked).
fn encoded_len(action: &RollupDataSubmission) -> usize {
    use astria_core::Protobuf as _;
    prost::Message::encoded_len(&action.to_raw())
}

#[derive(Clone, Copy, Debug, PartialEq, Eq, Hash)]
enum Op {
    /// push an action whose encoded size is `SIZES[i]` relative to max
    Push(usize),
    PopNow,
    PopFinished,
}

const SIZE_NAMES: &[&str] = &["min", "half", "max-1", "max", "max+1", "half+1", "third"];

struct FactoryModel {
    max: usize,
    capacity: usize,
    /// target encoded sizes per Push class
    sizes: Vec<usize>,
    n_sizes: usize,
}

fn action_with_encoded_len(target: usize, id: u32) -> Option<RollupDataSubmission> {
    // data = 4 id bytes + filler; search the data length giving exactly `target`
    for data_len in 4..target + 8 {
        let mut data = vec![0xabu8; data_len];
        data[..4].copy_from_slice(&id.to_be_bytes());
        let a = RollupDataSubmission {
            rollup_id: RollupId::new([(id % 3) as u8; 32]),
            data: data.into(),
            // a trace-prefixed name: try_push converts it to the ibc/ form before measuring
            fee_asset: "nria".parse().unwrap(),
        };
        let len = encoded_len(&super::with_ibc_prefixed(a.clone()));
        if len == target {
            return Some(a);
        }
        if len > target {
            return None;
        }
    }
    None
}

fn min_encoded_len() -> usize {
    let a = RollupDataSubmission {
        rollup_id: RollupId::new([0; 32]),
        data: vec![0u8; 4].into(),
        fee_asset: "nria".parse().unwrap(),
    };
    encoded_len(&super::with_ibc_prefixed(a))
}

struct St {
    factory: BundleFactory,
    /// ids accepted and not yet emitted, in acceptance order (reference model)
    pending: VecDeque<u32>,
    next_id: u32,
    emitted_bundles: u32,
}

fn clone_factory(f: &BundleFactory) -> BundleFactory {
    BundleFactory {
        curr_bundle: f.curr_bundle.clone(),
        finished: f.finished.clone(),
        finished_queue_capacity: f.finished_queue_capacity,
    }
}

fn ids_of(b: &SizedBundle) -> Vec<u32> {
    b.buffer
        .iter()
        .map(|a| match a {
            Action::RollupDataSubmission(s) => u32::from_be_bytes(s.data[..4].try_into().unwrap()),
            other => panic!("non-sequence action in bundle: {other:?}"),
        })
        .collect()
}

fn recomputed_size(b: &SizedBundle) -> usize {
    b.buffer
        .iter()
        .map(|a| match a {
            Action::RollupDataSubmission(s) => encoded_len(s),
            _ => 0,
        })
        .sum()
}

fn contents(f: &BundleFactory) -> Vec<Vec<u32>> {
    let mut v: Vec<Vec<u32>> = f.finished.iter().map(ids_of).collect();
    v.push(ids_of(&f.curr_bundle));
    v
}

impl FactoryModel {
    fn size_class(&self, len: usize) -> usize {
        self.sizes.iter().position(|s| *s == len).unwrap_or(99)
    }

    fn structure(&self, f: &BundleFactory) -> Vec<Vec<usize>> {
        let enc = |b: &SizedBundle| -> Vec<usize> {
            b.buffer
                .iter()
                .map(|a| match a {
                    Action::RollupDataSubmission(s) => self.size_class(encoded_len(s)),
                    _ => 98,
                })
                .collect()
        };
        let mut v: Vec<Vec<usize>> = f.finished.iter().map(enc).collect();
        v.push(enc(&f.curr_bundle));
        v
    }

    fn viol(&self, clause: &str, signature: String, detail: String) -> Violation {
        Violation {
            clause: clause.to_string(),
            signature,
            detail: format!("max={} capacity={}: {detail}", self.max, self.capacity),
        }
    }

    /// Invariants on every bundle held by the factory and on the reference relation.
    fn check_state(&self, st: &St) -> Result<(), Violation> {
        let all: Vec<u32> = contents(&st.factory).concat();
        let want: Vec<u32> = st.pending.iter().copied().collect();
        if all != want {
            return Err(self.viol(
                "exactly-once-in-order",
                "held != accepted-not-emitted".into(),
                format!("factory holds ids {all:?}, reference (accepted, not yet emitted, in order) {want:?}"),
            ));
        }
        for (n, b) in st.factory.finished.iter().chain(std::iter::once(&st.factory.curr_bundle)).enumerate() {
            let real = recomputed_size(b);
            if real > self.max {
                return Err(self.viol(
                    "size-bound",
                    "held bundle exceeds max".into(),
                    format!("bundle #{n} has recomputed size {real} > max"),
                ));
            }
            if b.get_size() != real {
                return Err(self.viol(
                    "size-bound",
                    "reported size != recomputed".into(),
                    format!("bundle #{n} reports {} but its actions encode to {real}", b.get_size()),
                ));
            }
        }
        if st.factory.finished.iter().any(SizedBundle::is_empty) {
            return Err(self.viol(
                "exactly-once-in-order",
                "empty bundle queued as finished".into(),
                "an empty bundle sits in the finished queue".into(),
            ));
        }
        Ok(())
    }
}

impl Model for FactoryModel {
    type Ev = Op;
    type St = St;

    fn init(&self) -> St {
        St {
            factory: BundleFactory::new(self.max, self.capacity),
            pending: VecDeque::new(),
            next_id: 1,
            emitted_bundles: 0,
        }
    }

    fn enabled(&self, _st: &St, _hist: &[Op]) -> Vec<Op> {
        let mut v: Vec<Op> = (0..self.n_sizes).map(Op::Push).collect();
        v.push(Op::PopNow);
        v.push(Op::PopFinished);
        v
    }

    fn step(&self, st: &St, _hist: &[Op], ev: &Op) -> Step<St> {
        let mut next = St {
            factory: clone_factory(&st.factory),
            pending: st.pending.clone(),
            next_id: st.next_id,
            emitted_bundles: st.emitted_bundles,
        };
        match ev {
            Op::Push(class) => {
                let target = self.sizes[*class];
                let id = st.next_id;
                next.next_id += 1;
                let Some(action) = action_with_encoded_len(target, id) else {
                    return Step::Skip;
                };
                let before = contents(&next.factory);
                let finished_full = next.factory.finished.len() >= self.capacity;
                let res = catch_quiet(std::panic::AssertUnwindSafe(|| next.factory.try_push(action)));
                let res = match res {
                    Ok(r) => r,
                    Err((msg, loc)) => {
                        return Step::Violated(self.viol(
                            "no-panic",
                            "try_push panics".into(),
                            format!("try_push({}) panicked: {msg} at {loc}", SIZE_NAMES[*class]),
                        ));
                    }
                };
                match res {
                    Ok(()) => {
                        if target > self.max {
                            return Step::Violated(self.viol(
                                "size-bound",
                                "oversized action accepted".into(),
                                format!("action of encoded size {target} accepted"),
                            ));
                        }
                        next.pending.push_back(id);
                    }
                    Err(e) => {
                        let too_large = target > self.max;
                        if !(too_large || finished_full) {
                            return Step::Violated(self.viol(
                                "refusal-only-if",
                                format!("refused {} with room", SIZE_NAMES[*class]),
                                format!(
                                    "push of size {target} refused ({e}) although it fits alone and the finished \
                                     queue holds {} < capacity",
                                    st.factory.finished.len()
                                ),
                            ));
                        }
                        match (&e, too_large) {
                            (BundleFactoryError::SequenceActionTooLarge { size, .. }, true) if *size == target => {}
                            (BundleFactoryError::FinishedQueueFull(_), false) => {}
                            _ => {
                                return Step::Violated(self.viol(
                                    "refusal-only-if",
                                    "wrong refusal reason".into(),
                                    format!("push of size {target}: refusal reason `{e}` does not match the cause"),
                                ));
                            }
                        }
                        if contents(&next.factory) != before {
                            return Step::Violated(self.viol(
                                "refusal-leaves-state",
                                "refused push changed contents".into(),
                                format!("before {before:?} after {:?}", contents(&next.factory)),
                            ));
                        }
                    }
                }
            }
            Op::PopNow | Op::PopFinished => {
                let popped = if *ev == Op::PopNow {
                    next.factory.pop_now()
                } else {
                    match next.factory.next_finished() {
                        Some(h) => h.pop(),
                        None => return Step::Skip,
                    }
                };
                let ids = ids_of(&popped);
                let real = recomputed_size(&popped);
                if real > self.max || popped.get_size() != real {
                    return Step::Violated(self.viol(
                        "size-bound",
                        "emitted bundle exceeds max or misreports size".into(),
                        format!("emitted bundle: recomputed size {real}, reported {}", popped.get_size()),
                    ));
                }
                if *ev == Op::PopFinished && ids.is_empty() {
                    return Step::Violated(self.viol(
                        "exactly-once-in-order",
                        "empty finished bundle emitted".into(),
                        "next_finished().pop() returned an empty bundle".into(),
                    ));
                }
                for id in &ids {
                    match next.pending.pop_front() {
                        Some(want) if want == *id => {}
                        other => {
                            return Step::Violated(self.viol(
                                "exactly-once-in-order",
                                "emitted out of acceptance order".into(),
                                format!("emitted id {id}, reference expected {other:?} next"),
                            ));
                        }
                    }
                }
                if !ids.is_empty() {
                    next.emitted_bundles += 1;
                    // a non-empty bundle must be convertible into a transaction body
                    let r = catch_quiet(std::panic::AssertUnwindSafe(|| {
                        popped.to_transaction_body(0, "chain").actions().len()
                    }));
                    if r.ok() != Some(ids.len()) {
                        return Step::Violated(self.viol(
                            "no-panic",
                            "to_transaction_body".into(),
                            "emitted bundle cannot be turned into a transaction body with all its actions".into(),
                        ));
                    }
                }
            }
        }
        match self.check_state(&next) {
            Ok(()) => Step::Next(next),
            Err(v) => Step::Violated(v),
        }
    }

    fn canon(&self, st: &St) -> u128 {
        // Behaviour depends on the sizes of the held actions only; ids are a bijective relabelling
        // of positions, so states with equal size structure have equal futures.
        report::h128(&self.structure(&st.factory))
    }

    fn outcome(&self, st: &St) -> u64 {
        report::h64(&(st.factory.finished.len(), st.factory.curr_bundle.is_empty()))
    }
}

fn model(max_mult: usize, capacity: usize, n_sizes: usize) -> FactoryModel {
    let min = min_encoded_len();
    // max chosen so that `half`+`half` fits exactly, `third` x3 fits, and max-1/max/max+1 are
    // all reachable encoded lengths
    let max = min * max_mult + 7;
    let sizes = vec![min, max / 2, max - 1, max, max + 1, max / 2 + 1, max / 3];
    FactoryModel {
        max,
        capacity,
        sizes,
        n_sizes,
    }
}

fn op_json(op: &Op) -> J {
    match op {
        Op::Push(c) => J::s(format!("push:{}", SIZE_NAMES[*c])),
        Op::PopNow => J::s("pop_now"),
        Op::PopFinished => J::s("pop_finished"),
    }
}

fn op_parse(s: &str) -> Op {
    match s {
        "pop_now" => Op::PopNow,
        "pop_finished" => Op::PopFinished,
        other => {
            let name = other.strip_prefix("push:").expect("push:<class>");
            Op::Push(SIZE_NAMES.iter().position(|n| *n == name).expect("size class"))
        }
    }
}

#[test]
fn verif_c16() {
    let mut rep = Report::new("C16", "bundle");
    if let Some(case) = report::load_replay("C16", "bundle") {
        let m = model(
            case.get("max_mult").and_then(J::as_int).unwrap() as usize,
            case.get("capacity").and_then(J::as_int).unwrap() as usize,
            SIZE_NAMES.len(),
        );
        let hist: Vec<Op> = case
            .get("history")
            .and_then(J::as_arr)
            .unwrap()
            .iter()
            .map(|j| op_parse(j.as_str().unwrap()))
            .collect();
        let a = explore::replay(&m, &hist);
        let b = explore::replay(&m, &hist);
        println!("REPLAY first={a:?}");
        assert_eq!(format!("{a:?}"), format!("{b:?}"), "uncontrolled nondeterminism in replay");
        if let Ok(Some(v)) = a {
            rep.finding(Finding {
                clause: v.clause,
                signature: v.signature,
                detail: v.detail,
                case,
            });
        }
        rep.finish();
        return;
    }
    let thorough = report::tier() == Tier::Thorough;
    let (depth, n_sizes) = if thorough { (11, 7) } else { (8, 6) };
    rep.rule(&format!(
        "BFS over the real BundleFactory: every sequence of <= {depth} operations from \
         {{push(size class) x {n_sizes}, pop_now, next_finished().pop()}} for max in 3 sizes (one with payloads of 128..255 bytes, two-byte length prefixes) x finished \
         queue capacity in {{0,1,2,3}}; state key = size structure of (finished bundles, current bundle); \
         oracle: list reference model (accepted ids in order), recomputed encoded sizes, refusal only if \
         too large or queue full, refused push leaves contents unchanged"
    ));
    let mut total_states = 0usize;
    let mut total_transitions = 0usize;
    let mut outcomes = 0usize;
    for max_mult in [2usize, 3, 5] {
        for capacity in [0usize, 1, 2, 3] {
            let m = model(max_mult, capacity, n_sizes);
            let out = explore::explore(
                &m,
                &Config {
                    max_depth: depth,
                    workers: report::workers(),
                    time_cap: std::time::Duration::from_secs(if thorough { 1800 } else { 120 }),
                    ..Config::default()
                },
            );
            println!(
                "NOTE C16 max_mult={max_mult} capacity={capacity}: states={} transitions={} skipped={} \
                 outcomes={} per_depth={:?} violations={}",
                out.states,
                out.transitions,
                out.skipped,
                out.distinct_outcomes,
                out.per_depth_states,
                out.violations.len()
            );
            total_states += out.states;
            total_transitions += out.transitions;
            outcomes = outcomes.max(out.distinct_outcomes);
            if let Some(cap) = &out.cap_hit {
                rep.cap_hit(cap);
            }
            for v in &out.violations {
                // determinism: replay twice without the explorer
                let a = explore::replay(&m, &v.history);
                let b = explore::replay(&m, &v.history);
                assert_eq!(format!("{a:?}"), format!("{b:?}"), "uncontrolled nondeterminism");
                rep.finding(Finding {
                    clause: v.violation.clause.clone(),
                    signature: v.violation.signature.clone(),
                    detail: format!("{} after {:?}", v.violation.detail, v.history),
                    case: J::obj()
                        .with("max_mult", J::i(max_mult))
                        .with("capacity", J::i(capacity))
                        .with("history", J::arr(v.history.iter().map(op_json))),
                });
            }
            for h in out.sample_histories.iter().take(2) {
                rep.sample(
                    J::obj()
                        .with("max", J::i(m.max))
                        .with("capacity", J::i(capacity))
                        .with("history", J::arr(h.iter().map(op_json))),
                );
            }
        }
    }
    rep.add("states", total_states);
    rep.add("transitions", total_transitions);
    rep.add("traces_validated_against_impl", total_transitions);
    rep.add("distinct_outcomes", outcomes);
    rep.set_extra("depth", J::i(depth));
    rep.assume("bundle size is measured as the sum of the protobuf encoded lengths of its actions, the unit max_bytes_per_bundle is defined in");
    rep.finish();
}
