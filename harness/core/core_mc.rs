// stub
