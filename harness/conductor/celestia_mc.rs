// stub
