// C09 — Conductor accepts firm data only if >2/3 voting power committed the block.
// Stage `quorum`: bounded-exhaustive enumeration of validator sets x commit-slot assignments
// through the real `ensure_commit_has_quorum`. Stage `blobs` (see blobs_mc.rs) drives the
// decode -> verify -> reconstruct pipeline.
#![allow(clippy::all, clippy::pedantic, dead_code)]

#[path = "/verif/engine/mod.rs"]
pub(crate) mod engine;

#[path = "/verif/harness/conductor/blobs_mc.rs"]
mod blobs_mc;

#[path = "/verif/harness/conductor/decode_mc.rs"]
mod decode_mc;

use std::collections::BTreeSet;

use astria_core::crypto::SigningKey;
use engine::{
    json::J,
    report::{
        self,
        catch_quiet,
        Finding,
        Report,
        Tier,
    },
};
use prost::Message as _;
use sequencer_client::{
    tendermint::{
        self,
        account,
        block::{
            Commit,
            CommitSig,
        },
        validator,
    },
    tendermint_proto,
    tendermint_rpc::endpoint::validators,
};

use super::ensure_commit_has_quorum;

pub(crate) const CHAIN: &str = "verif-chain";
pub(crate) const OTHER_CHAIN: &str = "other-chain";

pub(crate) fn key(i: u8) -> SigningKey {
    SigningKey::from([i.wrapping_mul(37).wrapping_add(11); 32])
}

pub(crate) fn tm_pub(k: &SigningKey) -> tendermint::PublicKey {
    tendermint::PublicKey::from_raw_ed25519(k.verification_key().as_ref()).unwrap()
}

pub(crate) fn addr(k: &SigningKey) -> account::Id {
    account::Id::from(tm_pub(k))
}

pub(crate) fn block_id(tag: u8) -> tendermint::block::Id {
    tendermint::block::Id {
        hash: tendermint::Hash::Sha256([tag; 32]),
        part_set_header: tendermint::block::parts::Header::new(1, tendermint::Hash::Sha256([tag ^ 0xff; 32]))
            .unwrap(),
    }
}

pub(crate) fn sign_vote(
    k: &SigningKey,
    height: u32,
    round: u16,
    block: Option<tendermint::block::Id>,
    chain: &str,
    timestamp: tendermint::Time,
) -> tendermint::Signature {
    let canonical = tendermint::vote::CanonicalVote {
        vote_type: tendermint::vote::Type::Precommit,
        height: height.into(),
        round: round.into(),
        block_id: block,
        timestamp: Some(timestamp),
        chain_id: chain.parse().unwrap(),
    };
    let msg = tendermint_proto::types::CanonicalVote::from(canonical).encode_length_delimited_to_vec();
    let sig = k.sign(&msg);
    tendermint::Signature::try_from(sig.to_bytes().as_ref()).unwrap()
}

#[derive(Clone, Copy, Debug, PartialEq, Eq, PartialOrd, Ord)]
pub(crate) enum Slot {
    Absent,
    Nil,
    Valid,
    SigByOtherKey,
    SigOverOtherBlock,
    SigOverOtherChain,
    SigOverOtherHeight,
    EmptySig,
    DuplicateOfNext,
    Outsider,
}

pub(crate) const SLOTS: &[Slot] = &[
    Slot::Valid,
    Slot::Absent,
    Slot::Nil,
    Slot::DuplicateOfNext,
    Slot::SigByOtherKey,
    Slot::SigOverOtherBlock,
    Slot::SigOverOtherChain,
    Slot::SigOverOtherHeight,
    Slot::EmptySig,
    Slot::Outsider,
];

pub(crate) struct Universe {
    pub keys: Vec<SigningKey>,
    pub outsider: SigningKey,
    pub height: u32,
    pub round: u16,
    pub block: tendermint::block::Id,
    pub time: tendermint::Time,
    /// sigs[validator][kind]
    valid: Vec<tendermint::Signature>,
    nil: Vec<tendermint::Signature>,
    other_block: Vec<tendermint::Signature>,
    other_chain: Vec<tendermint::Signature>,
    other_height: Vec<tendermint::Signature>,
    outsider_valid: tendermint::Signature,
}

impl Universe {
    pub(crate) fn new(n: usize, height: u32) -> Self {
        Self::for_block(n, height, block_id(7))
    }

    pub(crate) fn for_block(n: usize, height: u32, block: tendermint::block::Id) -> Self {
        let keys: Vec<SigningKey> = (0..n as u8).map(key).collect();
        let outsider = key(200);
        let time = tendermint::Time::from_unix_timestamp(1_700_000_000, 0).unwrap();
        let round = 0;
        let s = |k: &SigningKey, h: u32, b: Option<tendermint::block::Id>, c: &str| sign_vote(k, h, round, b, c, time);
        Self {
            valid: keys.iter().map(|k| s(k, height, Some(block), CHAIN)).collect(),
            nil: keys.iter().map(|k| s(k, height, None, CHAIN)).collect(),
            other_block: keys.iter().map(|k| s(k, height, Some(block_id(9)), CHAIN)).collect(),
            other_chain: keys.iter().map(|k| s(k, height, Some(block), OTHER_CHAIN)).collect(),
            other_height: keys.iter().map(|k| s(k, height + 1, Some(block), CHAIN)).collect(),
            outsider_valid: s(&outsider, height, Some(block), CHAIN),
            keys,
            outsider,
            height,
            round,
            block,
            time,
        }
    }

    pub(crate) fn validators(&self, powers: &[u64], at_height: u32) -> validators::Response {
        let infos: Vec<validator::Info> = self
            .keys
            .iter()
            .zip(powers)
            .map(|(k, p)| validator::Info {
                address: addr(k),
                pub_key: tm_pub(k),
                power: (*p).try_into().unwrap(),
                proposer_priority: 0.into(),
                name: None,
            })
            .collect();
        let total = infos.len() as i32;
        validators::Response::new(at_height.into(), infos, total)
    }

    pub(crate) fn commit(&self, slots: &[Slot]) -> Commit {
        let n = self.keys.len();
        let signatures = slots
            .iter()
            .enumerate()
            .map(|(i, s)| {
                let me = addr(&self.keys[i]);
                let commit = |validator_address, signature| CommitSig::BlockIdFlagCommit {
                    validator_address,
                    timestamp: self.time,
                    signature,
                };
                match s {
                    Slot::Absent => CommitSig::BlockIdFlagAbsent,
                    Slot::Nil => CommitSig::BlockIdFlagNil {
                        validator_address: me,
                        timestamp: self.time,
                        signature: Some(self.nil[i].clone()),
                    },
                    Slot::Valid => commit(me, Some(self.valid[i].clone())),
                    Slot::SigByOtherKey => commit(me, Some(self.valid[(i + 1) % n].clone())),
                    Slot::SigOverOtherBlock => commit(me, Some(self.other_block[i].clone())),
                    Slot::SigOverOtherChain => commit(me, Some(self.other_chain[i].clone())),
                    Slot::SigOverOtherHeight => commit(me, Some(self.other_height[i].clone())),
                    Slot::EmptySig => commit(me, None),
                    Slot::DuplicateOfNext => {
                        let j = (i + 1) % n;
                        commit(addr(&self.keys[j]), Some(self.valid[j].clone()))
                    }
                    Slot::Outsider => commit(addr(&self.outsider), Some(self.outsider_valid.clone())),
                }
            })
            .collect();
        Commit {
            height: self.height.into(),
            round: self.round.into(),
            block_id: self.block,
            signatures,
        }
    }

    /// Reference: distinct validators of the set with a valid signature for this block, height
    /// and chain id somewhere in the commit.
    pub(crate) fn reference_valid_set(&self, slots: &[Slot]) -> BTreeSet<usize> {
        let n = self.keys.len();
        let mut set = BTreeSet::new();
        for (i, s) in slots.iter().enumerate() {
            match s {
                Slot::Valid => {
                    set.insert(i);
                }
                Slot::DuplicateOfNext => {
                    set.insert((i + 1) % n);
                }
                // n == 1: "other key" is the validator's own key, i.e. a valid signature
                Slot::SigByOtherKey if n == 1 => {
                    set.insert(i);
                }
                _ => {}
            }
        }
        set
    }
}

fn slots_json(slots: &[Slot]) -> J {
    J::arr(slots.iter().map(|s| J::s(format!("{s:?}"))))
}

fn parse_slot(s: &str) -> Slot {
    *SLOTS.iter().find(|x| format!("{x:?}") == s).expect("slot name")
}

struct QuorumCase {
    powers: Vec<u64>,
    slots: Vec<Slot>,
    validator_set_height_offset: u32,
}

fn run_quorum_case(u: &Universe, case: &QuorumCase) -> Result<bool, (String, String)> {
    let vals = u.validators(&case.powers, u.height + case.validator_set_height_offset);
    let commit = u.commit(&case.slots);
    let chain: tendermint::chain::Id = CHAIN.parse().unwrap();
    catch_quiet(std::panic::AssertUnwindSafe(|| ensure_commit_has_quorum(&commit, &vals, &chain).is_ok()))
}

fn check_quorum_case(rep: &mut Report, u: &Universe, case: &QuorumCase) {
    rep.add("evaluations", 1);
    let accepted = match run_quorum_case(u, case) {
        Ok(a) => a,
        Err((msg, loc)) => {
            rep.finding(Finding {
                clause: "quorum-total".into(),
                signature: format!("panic: {msg}"),
                detail: format!("ensure_commit_has_quorum panicked at {loc}: {msg}"),
                case: quorum_case_json(case),
            });
            return;
        }
    };
    let valid = u.reference_valid_set(&case.slots);
    let committed: u128 = valid.iter().map(|i| u128::from(case.powers[*i])).sum();
    let total: u128 = case.powers.iter().map(|p| u128::from(*p)).sum();
    let quorum = 3 * committed > 2 * total;
    let all_valid = case.slots.iter().all(|s| *s == Slot::Valid);
    let has_dup = case.slots.iter().any(|s| *s == Slot::DuplicateOfNext);
    if accepted {
        rep.add("accepted", 1);
    }
    if accepted && case.validator_set_height_offset != 0 {
        rep.finding(Finding {
            clause: "quorum-height".into(),
            signature: "validator set of another height accepted".into(),
            detail: format!("commit at height {} verified against the validator set of height {}", u.height, u.height + 1),
            case: quorum_case_json(case),
        });
    } else if accepted && !quorum {
        let signature = if has_dup && {
            // would the tally without double counting have been below the code's own threshold?
            let naive: u128 = case
                .slots
                .iter()
                .enumerate()
                .map(|(i, s)| match s {
                    Slot::Valid => u128::from(case.powers[i]),
                    Slot::DuplicateOfNext => u128::from(case.powers[(i + 1) % case.powers.len()]),
                    _ => 0,
                })
                .sum();
            naive != committed
        } {
            "duplicate commit slots counted more than once"
        } else {
            "accepted with distinct valid power <= 2/3 of total"
        };
        rep.finding(Finding {
            clause: "quorum-threshold".into(),
            signature: signature.into(),
            detail: format!(
                "accepted although distinct validators with valid signatures hold {committed} of {total} \
                 (3*{committed} <= 2*{total}); powers={:?} slots={:?}",
                case.powers, case.slots
            ),
            case: quorum_case_json(case),
        });
    } else if !accepted && all_valid && case.validator_set_height_offset == 0 {
        rep.finding(Finding {
            clause: "quorum-nonvacuous".into(),
            signature: "honest full commit rejected".into(),
            detail: format!("every validator signed validly, powers={:?}, yet the commit was rejected", case.powers),
            case: quorum_case_json(case),
        });
    } else if rep.wants_sample() && accepted && case.slots.iter().any(|s| *s != Slot::Valid) {
        rep.sample(quorum_case_json(case).with("accepted", J::Bool(true)));
    }
    if case.slots.iter().any(|s| *s == Slot::Valid) && !all_valid {
        rep.add("distinct_nontrivial", 1);
    }
}

fn quorum_case_json(case: &QuorumCase) -> J {
    J::obj()
        .with("kind", J::s("quorum"))
        .with("powers", J::arr(case.powers.iter().map(|p| J::s(p.to_string()))))
        .with("slots", slots_json(&case.slots))
        .with("validator_set_height_offset", J::i(case.validator_set_height_offset))
}

fn enumerate_quorum(rep: &mut Report, thorough: bool) {
    let power_alphabet: &[u64] = if thorough { &[1, 2, 3, 5] } else { &[1, 2, 3] };
    let slot_alphabet: &[Slot] = if thorough { SLOTS } else { &SLOTS[..8] };
    let max_n = 4usize;
    // work list of (n, powers); each item enumerates all slot assignments
    let mut work: Vec<Vec<u64>> = Vec::new();
    for n in 1..=max_n {
        let mut idx = vec![0usize; n];
        loop {
            work.push(idx.iter().map(|i| power_alphabet[*i]).collect());
            let mut p = 0;
            while p < n {
                idx[p] += 1;
                if idx[p] < power_alphabet.len() {
                    break;
                }
                idx[p] = 0;
                p += 1;
            }
            if p == n {
                break;
            }
        }
    }
    // large-power singles and pairs: overflow / saturation boundaries of the tally
    let big = [u64::MAX / 3, u64::MAX / 2, (i64::MAX as u64) / 2, i64::MAX as u64 - 1];
    for b in big {
        work.push(vec![b]);
        work.push(vec![b, 1]);
        work.push(vec![b, b / 2, 1]);
    }
    let universes: Vec<Universe> = (0..=max_n).map(|n| Universe::new(n.max(1), 10)).collect();
    let next = std::sync::atomic::AtomicUsize::new(0);
    let reports: std::sync::Mutex<Vec<Report>> = std::sync::Mutex::new(Vec::new());
    std::thread::scope(|scope| {
        for _ in 0..report::workers() {
            scope.spawn(|| {
                let mut local = Report::new("C09", "quorum");
                loop {
                    let i = next.fetch_add(1, std::sync::atomic::Ordering::Relaxed);
                    if i >= work.len() {
                        break;
                    }
                    let powers = &work[i];
                    // tendermint's vote::Power is bounded by i64::MAX; totals beyond are rejected upstream
                    if powers.iter().any(|p| *p > i64::MAX as u64) {
                        continue;
                    }
                    let n = powers.len();
                    let u = &universes[n];
                    let mut idx = vec![0usize; n];
                    loop {
                        let slots: Vec<Slot> = idx.iter().map(|i| slot_alphabet[*i]).collect();
                        let case = QuorumCase {
                            powers: powers.clone(),
                            slots,
                            validator_set_height_offset: 0,
                        };
                        check_quorum_case(&mut local, u, &case);
                        let mut p = 0;
                        while p < n {
                            idx[p] += 1;
                            if idx[p] < slot_alphabet.len() {
                                break;
                            }
                            idx[p] = 0;
                            p += 1;
                        }
                        if p == n {
                            break;
                        }
                    }
                    // validator set fetched for another height
                    let case = QuorumCase {
                        powers: powers.clone(),
                        slots: vec![Slot::Valid; n],
                        validator_set_height_offset: 1,
                    };
                    check_quorum_case(&mut local, u, &case);
                }
                reports.lock().unwrap().push(local);
            });
        }
    });
    for r in reports.into_inner().unwrap() {
        rep.absorb(r);
    }
    rep.set_extra("power_alphabet", J::arr(power_alphabet.iter().map(|p| J::i(*p))));
    rep.set_extra("slot_alphabet", slots_json(slot_alphabet));
    rep.set_extra("max_validators", J::i(max_n));
}

#[test]
fn verif_c09_quorum() {
    let mut rep = Report::new("C09", "quorum");
    if let Some(case) = report::load_replay("C09", "quorum") {
        let powers: Vec<u64> = case
            .get("powers")
            .and_then(J::as_arr)
            .unwrap()
            .iter()
            .map(|p| p.as_str().unwrap().parse().unwrap())
            .collect();
        let slots: Vec<Slot> = case
            .get("slots")
            .and_then(J::as_arr)
            .unwrap()
            .iter()
            .map(|s| parse_slot(s.as_str().unwrap()))
            .collect();
        let qc = QuorumCase {
            validator_set_height_offset: case.get("validator_set_height_offset").and_then(J::as_int).unwrap_or(0) as u32,
            powers,
            slots,
        };
        let u = Universe::new(qc.powers.len(), 10);
        let a = run_quorum_case(&u, &qc);
        let b = run_quorum_case(&u, &qc);
        assert_eq!(format!("{a:?}"), format!("{b:?}"), "uncontrolled nondeterminism");
        println!("REPLAY accepted={a:?}");
        check_quorum_case(&mut rep, &u, &qc);
        rep.finish();
        return;
    }
    let thorough = report::tier() == Tier::Thorough;
    rep.rule(
        "every validator set of 1..=4 validators with powers from the power alphabet (plus large-power \
         boundary sets) x every assignment of a slot kind per validator from the slot alphabet \
         (valid / absent / nil / duplicate of another validator's valid slot / signature by another key / \
         over another block, chain id, height / empty / outsider), through the real ensure_commit_has_quorum; \
         oracle: accepted => 3 x power(distinct validators with a valid signature) > 2 x total (u128), the honest \
         full commit is accepted, a validator set of another height is rejected. distinct_nontrivial counts \
         cases that are neither honest-full nor trivially below quorum in the same way.",
    );
    enumerate_quorum(&mut rep, thorough);
    rep.assume("ed25519 signature verification (ed25519-consensus) is correct");
    rep.finish();
}
