// C17 — Untrusted wire data never panics a decoder; accepted values are self-consistent.
//
// Bounded-exhaustive, structure-aware enumeration: every valid encoding (transaction, sequencer
// block, filtered block, Celestia metadata, rollup-data item, rollup-data entry, Celestia blob) is
// parsed into its protobuf wire tree; every single-node mutation from a fixed menu (delete,
// duplicate, swap with the next sibling, integer edge values, byte-string truncation / extension /
// bit flips, empty sub-message, declared length off by one) and every truncation of the encoding
// is generated (thorough: every pair of mutations for the small encodings) and fed to the public
// decode entry point. Oracle: no panic; an accepted value re-encodes to a fixed point, passes an
// independent re-verification of its signature / Merkle proofs, and converts into the other
// checked forms (filtered block, Celestia items) that themselves validate.
#![allow(clippy::all, clippy::pedantic, dead_code, unused_imports)]

use std::collections::BTreeSet;

use astria_core::{
    brotli::{
        compress_bytes,
        decompress_bytes,
    },
    crypto::{
        Signature,
        SigningKey,
        VerificationKey,
    },
    generated::astria::{
        protocol::transaction::v1 as rawtx,
        sequencerblock::v1 as raw,
    },
    primitive::v1::{
        asset,
        derive_merkle_tree_from_rollup_txs,
        Address,
        RollupId,
    },
    protocol::{
        test_utils::ConfigureSequencerBlock,
        transaction::v1::{
            action::{
                RollupDataSubmission,
                Transfer,
            },
            Transaction,
            TransactionBody,
        },
    },
    sequencerblock::v1::{
        block::{
            Deposit,
            FilteredSequencerBlock,
            RollupData,
            SequencerBlockHeader,
        },
        SequencerBlock,
        SubmittedMetadata,
        SubmittedRollupData,
    },
    Protobuf as _,
};
use bytes::Bytes;
use celestia_types::Blob;
use prost::Message as _;
use sha2::{
    Digest as _,
    Sha256,
};

use super::engine::{
    json::J,
    report::{
        self,
        catch_quiet,
        Finding,
        Report,
        Tier,
    },
};
use crate::celestia::{
    convert::decode_raw_blobs,
    fetch::RawBlobs,
};

use super::engine::wire::{
    count_nodes,
    encode,
    mutants,
    parse,
};

// ---------------------------------------------------------------------------------------------
// Seeds
// ---------------------------------------------------------------------------------------------

fn r1() -> RollupId {
    RollupId::new([0xa1; 32])
}

fn r2() -> RollupId {
    RollupId::new([0xa2; 32])
}

fn astria_addr(b: u8) -> Address {
    Address::builder().array([b; 20]).prefix("astria").try_build().unwrap()
}

fn deposit(amount: u128) -> Deposit {
    Deposit {
        bridge_address: astria_addr(0xbb),
        rollup_id: r2(),
        amount,
        asset: "nria".parse::<asset::Denom>().unwrap(),
        destination_chain_address: "dest".to_string(),
        source_transaction_id: astria_core::primitive::v1::TransactionId::new([7; 32]),
        source_action_index: 1,
    }
}

fn seed_block(extended: bool) -> SequencerBlock {
    ConfigureSequencerBlock {
        block_hash: Some(astria_core::sequencerblock::v1::block::Hash::new([9; 32])),
        chain_id: Some("verif-seq".to_string()),
        height: 7,
        sequence_data: vec![(r1(), b"one".to_vec()), (r2(), b"two".to_vec()), (r1(), b"three".to_vec())],
        deposits: vec![deposit(5)],
        unix_timestamp: (1i64, 1u32).into(),
        signing_key: Some(SigningKey::from([3; 32])),
        proposer_address: None,
        use_data_items: true,
        with_aspen: true,
        with_extended_commit_info: extended,
    }
    .make()
}

fn seed_tx(small: bool) -> Transaction {
    let mut actions = vec![Transfer {
        to: astria_addr(0x11),
        amount: 5,
        asset: "nria".parse().unwrap(),
        fee_asset: "nria".parse().unwrap(),
    }
    .into()];
    if !small {
        actions.push(
            RollupDataSubmission {
                rollup_id: r1(),
                data: Bytes::from_static(b"payload"),
                fee_asset: "nria".parse().unwrap(),
            }
            .into(),
        );
    }
    TransactionBody::builder().actions(actions).chain_id("verif-seq").nonce(3).try_build().unwrap().sign(&SigningKey::from([5; 32]))
}

// ---------------------------------------------------------------------------------------------
// Targets: decode + oracle. Err(description) = property violated.
// ---------------------------------------------------------------------------------------------

#[derive(Clone, Copy, Debug, PartialEq, Eq, PartialOrd, Ord)]
enum Verdict {
    Undecodable,
    Rejected,
    Accepted,
}

type Target = fn(&[u8]) -> Result<Verdict, String>;

fn fixed_point<T, R>(value: &T, to_raw: impl Fn(&T) -> R, from_raw: impl Fn(R) -> Result<T, String>) -> Result<(), String>
where
    R: prost::Message + Clone + Default,
{
    let first = to_raw(value).encode_to_vec();
    let redecoded = R::decode(&*first).map_err(|e| format!("re-encoding does not decode: {e}"))?;
    let again = from_raw(redecoded).map_err(|e| format!("re-encoding of an accepted value is rejected: {e}"))?;
    let second = to_raw(&again).encode_to_vec();
    if first != second {
        return Err("re-encoding is not a fixed point".into());
    }
    Ok(())
}

fn target_transaction(b: &[u8]) -> Result<Verdict, String> {
    let Ok(raw) = rawtx::Transaction::decode(b) else { return Ok(Verdict::Undecodable) };
    let Ok(tx) = Transaction::try_from_raw(raw.clone()) else { return Ok(Verdict::Rejected) };
    // independent check of the signature over exactly the body bytes that were accepted
    let key = VerificationKey::try_from(&*raw.public_key).map_err(|e| format!("accepted with a bad key: {e}"))?;
    let sig = Signature::try_from(&*raw.signature).map_err(|e| format!("accepted with a bad signature encoding: {e}"))?;
    let body = raw.body.as_ref().ok_or("accepted without a body")?;
    key.verify(&sig, &body.value).map_err(|_| "accepted although the signature does not verify over the body".to_string())?;
    if tx.verification_key().as_bytes() != &*raw.public_key {
        return Err("accepted value carries a different key than the message".into());
    }
    let _ = (tx.id(), tx.group(), tx.actions().len(), tx.nonce(), tx.chain_id().len());
    fixed_point(&tx, |t| t.to_raw(), |r| Transaction::try_from_raw(r).map_err(|e| e.to_string()))?;
    Ok(Verdict::Accepted)
}

fn check_header_proofs(
    header: &SequencerBlockHeader,
    rollup_transactions_proof: &merkle::Proof,
    rollup_ids_proof: &merkle::Proof,
    all_ids: &[RollupId],
) -> Result<(), String> {
    let data_hash = *header.data_hash();
    if !rollup_transactions_proof.verify(&Sha256::digest(header.rollup_transactions_root()), data_hash) {
        return Err("accepted although the rollup transactions root is not proven under the data hash".into());
    }
    let ids_root = merkle::Tree::from_leaves(all_ids.iter().map(|id| id.as_ref().to_vec())).root();
    if !rollup_ids_proof.verify(&Sha256::digest(ids_root), data_hash) {
        return Err("accepted although the rollup ids are not proven under the data hash".into());
    }
    Ok(())
}

fn check_rollup_proof(
    id: RollupId,
    transactions: &[Bytes],
    proof: &merkle::Proof,
    root: [u8; 32],
) -> bool {
    proof
        .audit()
        .with_root(root)
        .with_leaf_builder()
        .write(id.as_ref())
        .write(&merkle::Tree::from_leaves(transactions).root())
        .finish_leaf()
        .perform()
}

fn target_sequencer_block(b: &[u8]) -> Result<Verdict, String> {
    let Ok(raw_block) = raw::SequencerBlock::decode(b) else { return Ok(Verdict::Undecodable) };
    let Ok(block) = SequencerBlock::try_from_raw(raw_block) else { return Ok(Verdict::Rejected) };
    let ids: Vec<RollupId> = block.rollup_transactions().keys().copied().collect();
    check_header_proofs(block.header(), block.rollup_transactions_proof(), block.rollup_ids_proof(), &ids)?;
    let tree = derive_merkle_tree_from_rollup_txs(block.rollup_transactions().iter().map(|(id, rt)| (id, rt.transactions())));
    if tree.root() != *block.header().rollup_transactions_root() {
        return Err("accepted although the rollup data does not hash to the header's rollup transactions root".into());
    }
    for (id, rt) in block.rollup_transactions() {
        if !check_rollup_proof(*id, rt.transactions(), rt.proof(), *block.header().rollup_transactions_root()) {
            return Err("accepted although a rollup's inclusion proof does not verify against the header".into());
        }
    }
    fixed_point(&block, |v| v.clone().into_raw(), |r| SequencerBlock::try_from_raw(r).map_err(|e| e.to_string()))?;
    // the other checked forms derived from an accepted block must validate
    let filtered = block.clone().into_filtered_block(ids.clone()).into_raw();
    FilteredSequencerBlock::try_from_raw(filtered).map_err(|e| format!("accepted block converts into a filtered block that is rejected: {e}"))?;
    let (metadata, items) = block.split_for_celestia();
    SubmittedMetadata::try_from_raw(metadata.into_raw()).map_err(|e| format!("accepted block converts into Celestia metadata that is rejected: {e}"))?;
    for item in items {
        SubmittedRollupData::try_from_raw(item.into_raw()).map_err(|e| format!("accepted block converts into a Celestia rollup item that is rejected: {e}"))?;
    }
    Ok(Verdict::Accepted)
}

fn target_filtered_block(b: &[u8]) -> Result<Verdict, String> {
    let Ok(raw_block) = raw::FilteredSequencerBlock::decode(b) else { return Ok(Verdict::Undecodable) };
    let Ok(block) = FilteredSequencerBlock::try_from_raw(raw_block) else { return Ok(Verdict::Rejected) };
    check_header_proofs(block.header(), block.rollup_transactions_proof(), block.rollup_ids_proof(), block.all_rollup_ids())?;
    for (id, rt) in block.rollup_transactions() {
        if !check_rollup_proof(*id, rt.transactions(), rt.proof(), *block.header().rollup_transactions_root()) {
            return Err("accepted although a rollup's inclusion proof does not verify against the header".into());
        }
        if !block.all_rollup_ids().contains(id) {
            return Err("accepted with data for a rollup that is not among the proven rollup ids".into());
        }
    }
    fixed_point(&block, |v| v.clone().into_raw(), |r| FilteredSequencerBlock::try_from_raw(r).map_err(|e| e.to_string()))?;
    Ok(Verdict::Accepted)
}

fn target_metadata(b: &[u8]) -> Result<Verdict, String> {
    let Ok(raw_m) = raw::SubmittedMetadata::decode(b) else { return Ok(Verdict::Undecodable) };
    let Ok(m) = SubmittedMetadata::try_from_raw(raw_m) else { return Ok(Verdict::Rejected) };
    let ids: Vec<RollupId> = m.rollup_ids().copied().collect();
    let un = m.clone().into_unchecked();
    check_header_proofs(m.header(), &un.rollup_transactions_proof, &un.rollup_ids_proof, &ids)?;
    fixed_point(&m, |v| v.clone().into_raw(), |r| SubmittedMetadata::try_from_raw(r).map_err(|e| e.to_string()))?;
    Ok(Verdict::Accepted)
}

fn target_rollup_item(b: &[u8]) -> Result<Verdict, String> {
    let Ok(raw_i) = raw::SubmittedRollupData::decode(b) else { return Ok(Verdict::Undecodable) };
    let Ok(i) = SubmittedRollupData::try_from_raw(raw_i) else { return Ok(Verdict::Rejected) };
    let _ = (i.rollup_id(), i.transactions().len(), i.sequencer_block_hash());
    fixed_point(&i, |v| v.clone().into_raw(), |r| SubmittedRollupData::try_from_raw(r).map_err(|e| e.to_string()))?;
    Ok(Verdict::Accepted)
}

fn target_rollup_entry(b: &[u8]) -> Result<Verdict, String> {
    let Ok(raw_e) = raw::RollupData::decode(b) else { return Ok(Verdict::Undecodable) };
    let Ok(e) = RollupData::try_from_raw(raw_e) else { return Ok(Verdict::Rejected) };
    fixed_point(&e, |v| v.clone().into_raw(), |r| RollupData::try_from_raw(r).map_err(|e| e.to_string()))?;
    Ok(Verdict::Accepted)
}

fn sequencer_ns() -> celestia_types::nmt::Namespace {
    astria_core::celestia::namespace_v0_from_sha256_of_bytes(b"verif-seq")
}

fn rollup_ns() -> celestia_types::nmt::Namespace {
    astria_core::celestia::namespace_v0_from_rollup_id(r1())
}

/// The conductor's blob decoding: `b` is the (uncompressed) metadata list; it is compressed and
/// put into a header blob next to an untouched rollup blob.
fn blobs_from_lists(header_list: &[u8], rollup_list: &[u8], compressed: bool) -> Option<RawBlobs> {
    let (h, r) = if compressed {
        (header_list.to_vec(), rollup_list.to_vec())
    } else {
        (compress_bytes(header_list).ok()?, compress_bytes(rollup_list).ok()?)
    };
    Some(RawBlobs {
        celestia_height: 5,
        header_blobs: vec![Blob::new(sequencer_ns(), h, celestia_types::AppVersion::V3).ok()?],
        rollup_blobs: vec![Blob::new(rollup_ns(), r, celestia_types::AppVersion::V3).ok()?],
    })
}

fn check_converted(blobs: RawBlobs) -> Result<Verdict, String> {
    let converted = decode_raw_blobs(blobs, rollup_ns(), sequencer_ns());
    let (_, metadata, items) = converted.into_parts();
    let any = !metadata.is_empty() || !items.is_empty();
    for m in metadata {
        let ids: Vec<RollupId> = m.rollup_ids().copied().collect();
        let un = m.clone().into_unchecked();
        check_header_proofs(m.header(), &un.rollup_transactions_proof, &un.rollup_ids_proof, &ids)?;
        SubmittedMetadata::try_from_raw(m.into_raw()).map_err(|e| format!("decoded metadata does not re-validate: {e}"))?;
    }
    for i in items {
        SubmittedRollupData::try_from_raw(i.into_raw()).map_err(|e| format!("decoded rollup item does not re-validate: {e}"))?;
    }
    Ok(if any { Verdict::Accepted } else { Verdict::Rejected })
}

thread_local! {
    static OTHER_LIST: std::cell::RefCell<Vec<u8>> = const { std::cell::RefCell::new(Vec::new()) };
}

fn target_header_blob(b: &[u8]) -> Result<Verdict, String> {
    let other = OTHER_LIST.with(|o| o.borrow().clone());
    match blobs_from_lists(b, &other, false) {
        Some(blobs) => check_converted(blobs),
        None => Ok(Verdict::Undecodable),
    }
}

fn target_rollup_blob(b: &[u8]) -> Result<Verdict, String> {
    let other = OTHER_LIST.with(|o| o.borrow().clone());
    match blobs_from_lists(&other, b, false) {
        Some(blobs) => check_converted(blobs),
        None => Ok(Verdict::Undecodable),
    }
}

/// `b` is the compressed blob payload itself.
fn target_compressed_blob(b: &[u8]) -> Result<Verdict, String> {
    let other = OTHER_LIST.with(|o| o.borrow().clone());
    let Ok(header) = Blob::new(sequencer_ns(), b.to_vec(), celestia_types::AppVersion::V3) else { return Ok(Verdict::Undecodable) };
    let Ok(rollup) = Blob::new(rollup_ns(), compress_bytes(&other).unwrap(), celestia_types::AppVersion::V3) else {
        return Ok(Verdict::Undecodable);
    };
    check_converted(RawBlobs {
        celestia_height: 5,
        header_blobs: vec![header],
        rollup_blobs: vec![rollup],
    })
}

// ---------------------------------------------------------------------------------------------
// Sweep
// ---------------------------------------------------------------------------------------------

struct Sweep<'a> {
    rep: &'a mut Report,
    verdicts: std::collections::BTreeMap<(String, Verdict), u64>,
}

impl Sweep<'_> {
    fn feed(&mut self, seed: &str, target: Target, what: &str, bytes: &[u8]) {
        self.rep.add("evaluations", 1);
        let outcome = catch_quiet(|| target(bytes));
        let (clause, signature, detail) = match outcome {
            Ok(Ok(v)) => {
                *self.verdicts.entry((seed.to_string(), v)).or_insert(0) += 1;
                if v != Verdict::Undecodable {
                    // the mutant got past protobuf decoding and reached the checked constructor
                    self.rep.add("distinct_nontrivial", 1);
                    if v == Verdict::Accepted && self.rep.wants_sample() {
                        self.rep.sample(J::obj().with("seed", J::s(seed)).with("mutation", J::s(what)).with("verdict", J::s("accepted")));
                    }
                }
                return;
            }
            Ok(Err(why)) => ("accepted-consistent", why.split(':').next().unwrap_or("").to_string(), why),
            Err((msg, loc)) => ("no-panic", format!("decoder panics at {loc}"), format!("{msg} at {loc}")),
        };
        self.rep.finding(Finding {
            clause: clause.into(),
            signature: format!("{seed}: {signature}"),
            detail: format!("{seed} mutated by [{what}]: {detail}"),
            case: J::obj().with("seed", J::s(seed)).with("mutation", J::s(what)).with("bytes", J::s(report::hex(bytes))),
        });
    }

    fn sweep(&mut self, seed: &str, target: Target, valid: &[u8], pairs: bool) {
        // the valid encoding itself must be accepted
        match catch_quiet(|| target(valid)) {
            Ok(Ok(Verdict::Accepted)) => {}
            other => {
                self.rep.finding(Finding {
                    clause: "harness".into(),
                    signature: format!("{seed}: valid seed not accepted"),
                    detail: format!("{other:?}"),
                    case: J::obj().with("seed", J::s(seed)),
                });
                return;
            }
        }
        let tree = parse(valid, 0).expect("valid encoding parses");
        assert_eq!(encode(&tree), valid, "wire tree round trip for {seed}");
        self.rep.add("wire_nodes", count_nodes(&tree));
        for cut in 0..valid.len() {
            self.feed(seed, target, &format!("truncate to {cut} bytes"), &valid[..cut]);
        }
        let singles = mutants(&tree, "");
        for (name, m) in &singles {
            let bytes = encode(m);
            self.feed(seed, target, name, &bytes);
        }
        self.rep.add("single_mutants", singles.len());
        if pairs {
            let mut n = 0u64;
            for (name1, m1) in &singles {
                for (name2, m2) in mutants(m1, "") {
                    n += 1;
                    let bytes = encode(&m2);
                    self.feed(seed, target, &format!("{name1} ; {name2}"), &bytes);
                }
            }
            self.rep.add("pair_mutants", n);
        }
    }
}

#[test]
fn verif_c17_decode() {
    report::quiet_panics();
    let mut rep = Report::new("C17", "decode");
    let thorough = report::tier() == Tier::Thorough;
    // seeds
    let block = seed_block(true);
    let block_plain = seed_block(false);
    let tx = seed_tx(false);
    let tx_small = seed_tx(true);
    let filtered = block.clone().into_filtered_block([r1()]);
    let (metadata, items) = block.clone().split_for_celestia();
    let item_r1 = items.iter().find(|i| i.rollup_id() == r1()).unwrap().clone();
    let entry_seq = RollupData::SequencedData(Bytes::from_static(b"hello")).into_raw().encode_to_vec();
    let entry_dep = RollupData::Deposit(Box::new(deposit(9))).into_raw().encode_to_vec();
    let header_list = raw::SubmittedMetadataList {
        entries: vec![metadata.clone().into_raw()],
    }
    .encode_to_vec();
    let rollup_list = raw::SubmittedRollupDataList {
        entries: vec![item_r1.clone().into_raw()],
    }
    .encode_to_vec();

    if let Some(case) = report::load_replay("C17", "decode") {
        let seed = case.get("seed").and_then(J::as_str).unwrap().to_string();
        let bytes = report::unhex(case.get("bytes").and_then(J::as_str).unwrap());
        let target: Target = match seed.as_str() {
            "transaction" | "transaction-small" => target_transaction,
            "sequencer-block" | "sequencer-block-plain" => target_sequencer_block,
            "filtered-block" => target_filtered_block,
            "celestia-metadata" => target_metadata,
            "celestia-rollup-item" => target_rollup_item,
            "rollup-entry-sequenced" | "rollup-entry-deposit" => target_rollup_entry,
            "header-blob" => {
                OTHER_LIST.with(|o| *o.borrow_mut() = rollup_list.clone());
                target_header_blob
            }
            "rollup-blob" => {
                OTHER_LIST.with(|o| *o.borrow_mut() = header_list.clone());
                target_rollup_blob
            }
            "compressed-header-blob" => {
                OTHER_LIST.with(|o| *o.borrow_mut() = rollup_list.clone());
                target_compressed_blob
            }
            other => panic!("unknown seed {other}"),
        };
        let mut sw = Sweep {
            rep: &mut rep,
            verdicts: Default::default(),
        };
        sw.feed(&seed, target, case.get("mutation").and_then(J::as_str).unwrap_or("replay"), &bytes);
        rep.finish();
        return;
    }

    rep.rule(
        "for each valid encoding (signed transaction with 1 and 2 actions; sequencer block with 2 rollups, a deposit, with and without \
         extended commit info; filtered block; Celestia metadata; Celestia rollup item; sequenced-data and deposit entries; the conductor's \
         header / rollup blob lists and the compressed blob bytes): every truncation of the encoding and every single-node mutation of its \
         protobuf wire tree from the menu {delete, duplicate, swap with next sibling, renumber field, integer := 0, 1, +-1, i32/u32/u64 max, \
         2^32, 2^63; bytes := empty, minus first / last byte, plus a byte, bit flips, zeros; declared length +-1 and 2^31; sub-message := \
         empty / cut} (thorough: every pair of such mutations for the small encodings; compressed blob: every single-byte flip and \
         truncation). Oracle: no panic; an accepted value re-encodes to a fixed point, its signature / Merkle proofs verify when recomputed \
         independently from the accepted fields, and the checked forms derived from it (filtered block, Celestia metadata and items) validate",
    );
    let mut sw = Sweep {
        rep: &mut rep,
        verdicts: Default::default(),
    };
    sw.sweep("transaction-small", target_transaction, &tx_small.to_raw().encode_to_vec(), thorough);
    sw.sweep("transaction", target_transaction, &tx.to_raw().encode_to_vec(), false);
    sw.sweep("rollup-entry-sequenced", target_rollup_entry, &entry_seq, true);
    sw.sweep("rollup-entry-deposit", target_rollup_entry, &entry_dep, thorough);
    sw.sweep("celestia-rollup-item", target_rollup_item, &item_r1.clone().into_raw().encode_to_vec(), thorough);
    sw.sweep("celestia-metadata", target_metadata, &metadata.clone().into_raw().encode_to_vec(), false);
    sw.sweep("filtered-block", target_filtered_block, &filtered.into_raw().encode_to_vec(), false);
    sw.sweep("sequencer-block-plain", target_sequencer_block, &block_plain.into_raw().encode_to_vec(), false);
    sw.sweep("sequencer-block", target_sequencer_block, &block.into_raw().encode_to_vec(), false);
    OTHER_LIST.with(|o| *o.borrow_mut() = rollup_list.clone());
    sw.sweep("header-blob", target_header_blob, &header_list, false);
    // compressed payload: every single-byte flip and truncation
    let compressed = compress_bytes(&header_list).unwrap();
    for cut in 0..compressed.len() {
        sw.feed("compressed-header-blob", target_compressed_blob, &format!("truncate to {cut} bytes"), &compressed[..cut]);
    }
    for i in 0..compressed.len() {
        for mask in [0x01u8, 0x80, 0xff] {
            let mut m = compressed.clone();
            m[i] ^= mask;
            sw.feed("compressed-header-blob", target_compressed_blob, &format!("byte {i} ^= {mask:#x}"), &m);
        }
    }
    OTHER_LIST.with(|o| *o.borrow_mut() = header_list.clone());
    sw.sweep("rollup-blob", target_rollup_blob, &rollup_list, false);
    let verdicts = std::mem::take(&mut sw.verdicts);
    let mut outcomes = BTreeSet::new();
    for ((seed, v), n) in &verdicts {
        println!("NOTE C17 {seed}: {v:?} x {n}");
        outcomes.insert(format!("{seed}:{v:?}"));
        rep.add(&format!("{v:?}").to_lowercase(), *n);
    }
    rep.add("distinct_outcomes", outcomes.len());
    rep.assume("mutations outside the menu (e.g. two independent edits in the large encodings, semantic forgeries that need a fresh signature) are not covered; CheckedTransaction::new in the sequencer is reached through Transaction::try_from_raw, whose decoding is covered here");
    rep.finish();
}
