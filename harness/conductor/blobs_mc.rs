// C09 stage `blobs`: every combination (bounded subset sizes) of honest and adversarial metadata /
// rollup-data items found in the two Celestia namespaces, pushed through the real
// decode_raw_blobs -> verify_metadata (BlobVerifier against a fake sequencer RPC) ->
// reconstruct_blocks_from_verified_blobs pipeline.
#![allow(clippy::all, clippy::pedantic, dead_code)]

use std::{
    collections::BTreeMap,
    sync::Arc,
};

use astria_core::{
    brotli::compress_bytes,
    generated::astria::sequencerblock::v1 as raw,
    primitive::v1::RollupId,
    protocol::test_utils::ConfigureSequencerBlock,
    sequencerblock::v1::{
        block,
        SequencerBlock,
    },
    Protobuf as _,
};
use celestia_types::{
    nmt::Namespace,
    Blob,
};
use prost::Message as _;
use sequencer_client::{
    tendermint,
    tendermint_rpc,
};
use serde_json::json;

use super::{
    engine::{
        json::J,
        report::{
            self,
            Finding,
            Report,
            Tier,
        },
    },
    Slot,
    Universe,
    CHAIN,
    OTHER_CHAIN,
};
use crate::celestia::{
    convert::decode_raw_blobs,
    fetch::RawBlobs,
    reconstruct::reconstruct_blocks_from_verified_blobs,
    verify::{
        verify_metadata,
        BlobVerifier,
    },
};

const R: RollupId = RollupId::new([0x11; 32]);
const R2: RollupId = RollupId::new([0x22; 32]);

fn hash_for(tag: u8) -> block::Hash {
    block::Hash::new([tag; 32])
}

fn seq_block(height: u32, hash_tag: u8, chain: &str, data_r: &[&[u8]], data_r2: &[&[u8]]) -> SequencerBlock {
    let mut sequence_data = Vec::new();
    for d in data_r {
        sequence_data.push((R, d.to_vec()));
    }
    for d in data_r2 {
        sequence_data.push((R2, d.to_vec()));
    }
    ConfigureSequencerBlock {
        block_hash: Some(hash_for(hash_tag)),
        chain_id: Some(chain.to_string()),
        height,
        sequence_data,
        unix_timestamp: (1i64, 1u32).into(),
        signing_key: Some(super::key(99)),
        proposer_address: None,
        ..Default::default()
    }
    .make()
}

fn rollup_ns() -> Namespace {
    astria_core::celestia::namespace_v0_from_rollup_id(R)
}

fn sequencer_ns() -> Namespace {
    astria_core::celestia::namespace_v0_from_sha256_of_bytes(CHAIN.as_bytes())
}

#[derive(Clone, Copy, Debug, PartialEq, Eq, PartialOrd, Ord, Hash)]
enum Meta {
    Honest10,
    Honest11,
    /// well-formed metadata of another block (other hash) claiming height 10
    WrongHash10,
    /// same block hash as the committed block 10, other chain id
    WrongChain10,
    /// height 13: the sequencer answers the commit request with an RPC error
    NoCommit13,
    /// height 12: the served commit carries only 1/3 of the voting power
    NoQuorum12,
    /// height 5: below the next expected firm height
    Stale5,
    DuplicateHonest10,
    /// raw entry without a header: not well formed
    Malformed,
    /// bytes that are not brotli
    JunkBlob,
}

const META_ADVERSARIAL: &[Meta] = &[
    Meta::WrongHash10,
    Meta::WrongChain10,
    Meta::NoQuorum12,
    Meta::NoCommit13,
    Meta::Stale5,
    Meta::DuplicateHonest10,
    Meta::Malformed,
    Meta::JunkBlob,
];

#[derive(Clone, Copy, Debug, PartialEq, Eq, PartialOrd, Ord, Hash)]
enum Roll {
    Honest10,
    Honest11,
    /// block 10's data of rollup R2 (valid proof for R2) posted in R's namespace
    OtherRollup10,
    /// block 10's data relabelled with block 11's hash
    WrongBlock,
    AlteredTx10,
    DroppedTx10,
    OverLongPath10,
    TruncatedPath10,
    LeafIndexHuge10,
    TreeSizeZero10,
    JunkBlob,
}

const ROLL_ADVERSARIAL: &[Roll] = &[
    Roll::OtherRollup10,
    Roll::WrongBlock,
    Roll::AlteredTx10,
    Roll::DroppedTx10,
    Roll::OverLongPath10,
    Roll::TruncatedPath10,
    Roll::LeafIndexHuge10,
    Roll::TreeSizeZero10,
    Roll::JunkBlob,
];

#[derive(Clone, Copy, Debug, PartialEq, Eq, Hash)]
enum HonestPart {
    None,
    Block10,
    Block10And11,
    MetadataOnly10,
    RollupOnly10,
}

const HONEST_PARTS: &[HonestPart] = &[
    HonestPart::Block10And11,
    HonestPart::Block10,
    HonestPart::MetadataOnly10,
    HonestPart::RollupOnly10,
    HonestPart::None,
];

struct World {
    b10: SequencerBlock,
    b11: SequencerBlock,
    b12: SequencerBlock,
    b13: SequencerBlock,
    b5: SequencerBlock,
    wrong_hash10: SequencerBlock,
    wrong_chain10: SequencerBlock,
}

impl World {
    fn new() -> Self {
        Self {
            b10: seq_block(10, 10, CHAIN, &[b"r-10-a", b"r-10-b"], &[b"r2-10-a"]),
            b11: seq_block(11, 11, CHAIN, &[b"r-11-a"], &[]),
            // the adversarial blocks carry no data for R, so that accepting their metadata alone
            // would already yield a (forged, empty) reconstructed block
            b12: seq_block(12, 12, CHAIN, &[], &[b"r2-12-a"]),
            b13: seq_block(13, 13, CHAIN, &[], &[b"r2-13-a"]),
            b5: seq_block(5, 5, CHAIN, &[], &[b"r2-5-a"]),
            wrong_hash10: seq_block(10, 77, CHAIN, &[], &[b"forged"]),
            wrong_chain10: seq_block(10, 10, OTHER_CHAIN, &[], &[b"forged-chain"]),
        }
    }

    fn metadata_raw(&self, m: Meta) -> Option<raw::SubmittedMetadata> {
        let b = match m {
            Meta::Honest10 | Meta::DuplicateHonest10 => &self.b10,
            Meta::Honest11 => &self.b11,
            Meta::WrongHash10 => &self.wrong_hash10,
            Meta::WrongChain10 => &self.wrong_chain10,
            Meta::NoCommit13 => &self.b13,
            Meta::NoQuorum12 => &self.b12,
            Meta::Stale5 => &self.b5,
            Meta::Malformed => {
                let mut raw = self.b10.clone().split_for_celestia().0.into_raw();
                raw.header = None;
                return Some(raw);
            }
            Meta::JunkBlob => return None,
        };
        Some(b.clone().split_for_celestia().0.into_raw())
    }

    fn rollup_raw_of(&self, b: &SequencerBlock, id: RollupId) -> raw::SubmittedRollupData {
        b.clone()
            .split_for_celestia()
            .1
            .into_iter()
            .find(|r| r.rollup_id() == id)
            .expect("rollup present in block")
            .into_raw()
    }

    fn rollup_raw(&self, r: Roll) -> Option<raw::SubmittedRollupData> {
        let mut raw = match r {
            Roll::Honest11 => return Some(self.rollup_raw_of(&self.b11, R)),
            Roll::OtherRollup10 => return Some(self.rollup_raw_of(&self.b10, R2)),
            Roll::JunkBlob => return None,
            _ => self.rollup_raw_of(&self.b10, R),
        };
        match r {
            Roll::Honest10 => {}
            Roll::WrongBlock => raw.sequencer_block_hash = self.b11.block_hash().as_bytes().to_vec().into(),
            Roll::AlteredTx10 => {
                let mut tx = raw.transactions[0].to_vec();
                tx[0] ^= 1;
                raw.transactions[0] = tx.into();
            }
            Roll::DroppedTx10 => {
                raw.transactions.pop();
            }
            Roll::OverLongPath10 => {
                let p = raw.proof.as_mut().unwrap();
                let mut path = p.audit_path.to_vec();
                path.extend_from_slice(&[0x5a; 64]);
                p.audit_path = path.into();
            }
            Roll::TruncatedPath10 => {
                let p = raw.proof.as_mut().unwrap();
                let path = p.audit_path.to_vec();
                p.audit_path = path[..path.len().saturating_sub(32)].to_vec().into();
            }
            Roll::LeafIndexHuge10 => raw.proof.as_mut().unwrap().leaf_index = 1 << 63,
            Roll::TreeSizeZero10 => raw.proof.as_mut().unwrap().tree_size = 0,
            _ => unreachable!(),
        }
        Some(raw)
    }

    /// What an honest reconstruction of height `h` must contain for rollup R.
    fn reference_txs(&self, h: u64) -> Vec<Vec<u8>> {
        let b = if h == 10 { &self.b10 } else { &self.b11 };
        b.rollup_transactions()
            .get(&R)
            .map(|t| t.transactions().iter().map(|b| b.to_vec()).collect())
            .unwrap_or_default()
    }
}

fn header_blob(entries: Vec<raw::SubmittedMetadata>) -> Blob {
    let bytes = raw::SubmittedMetadataList {
        entries,
    }
    .encode_to_vec();
    Blob::new(sequencer_ns(), compress_bytes(&bytes).unwrap(), celestia_types::AppVersion::V3).unwrap()
}

fn rollup_blob(entries: Vec<raw::SubmittedRollupData>) -> Blob {
    let bytes = raw::SubmittedRollupDataList {
        entries,
    }
    .encode_to_vec();
    Blob::new(rollup_ns(), compress_bytes(&bytes).unwrap(), celestia_types::AppVersion::V3).unwrap()
}

fn junk_blob(ns: Namespace) -> Blob {
    Blob::new(ns, b"this is not brotli, nor protobuf".to_vec(), celestia_types::AppVersion::V3).unwrap()
}

#[derive(Clone, Debug)]
struct Case {
    honest: HonestPart,
    metas: Vec<Meta>,
    rolls: Vec<Roll>,
    adversarial_first: bool,
    one_blob_per_item: bool,
}

impl Case {
    fn to_json(&self) -> J {
        J::obj()
            .with("kind", J::s("blobs"))
            .with("honest", J::s(format!("{:?}", self.honest)))
            .with("metas", J::arr(self.metas.iter().map(|m| J::s(format!("{m:?}")))))
            .with("rolls", J::arr(self.rolls.iter().map(|m| J::s(format!("{m:?}")))))
            .with("adversarial_first", J::Bool(self.adversarial_first))
            .with("one_blob_per_item", J::Bool(self.one_blob_per_item))
    }

    fn from_json(j: &J) -> Case {
        let find = |k: &str| j.get(k).and_then(J::as_arr).unwrap().iter().map(|x| x.as_str().unwrap().to_string()).collect::<Vec<_>>();
        let honest = j.get("honest").and_then(J::as_str).unwrap();
        Case {
            honest: *HONEST_PARTS.iter().find(|h| format!("{h:?}") == honest).unwrap(),
            metas: find("metas")
                .iter()
                .map(|s| *META_ADVERSARIAL.iter().find(|m| format!("{m:?}") == *s).unwrap())
                .collect(),
            rolls: find("rolls")
                .iter()
                .map(|s| *ROLL_ADVERSARIAL.iter().find(|m| format!("{m:?}") == *s).unwrap())
                .collect(),
            adversarial_first: matches!(j.get("adversarial_first"), Some(J::Bool(true))),
            one_blob_per_item: matches!(j.get("one_blob_per_item"), Some(J::Bool(true))),
        }
    }

    fn raw_blobs(&self, w: &World) -> RawBlobs {
        let (honest_m, honest_r): (Vec<Meta>, Vec<Roll>) = match self.honest {
            HonestPart::None => (vec![], vec![]),
            HonestPart::Block10 => (vec![Meta::Honest10], vec![Roll::Honest10]),
            HonestPart::Block10And11 => (vec![Meta::Honest10, Meta::Honest11], vec![Roll::Honest10, Roll::Honest11]),
            HonestPart::MetadataOnly10 => (vec![Meta::Honest10], vec![]),
            HonestPart::RollupOnly10 => (vec![], vec![Roll::Honest10]),
        };
        let pack_m = |items: &[Meta]| -> Vec<Blob> {
            let mut blobs = Vec::new();
            let mut entries = Vec::new();
            for m in items {
                match w.metadata_raw(*m) {
                    None => blobs.push(junk_blob(sequencer_ns())),
                    Some(raw) if self.one_blob_per_item => blobs.push(header_blob(vec![raw])),
                    Some(raw) => entries.push(raw),
                }
            }
            if !entries.is_empty() {
                blobs.push(header_blob(entries));
            }
            blobs
        };
        let pack_r = |items: &[Roll]| -> Vec<Blob> {
            let mut blobs = Vec::new();
            let mut entries = Vec::new();
            for r in items {
                match w.rollup_raw(*r) {
                    None => blobs.push(junk_blob(rollup_ns())),
                    Some(raw) if self.one_blob_per_item => blobs.push(rollup_blob(vec![raw])),
                    Some(raw) => entries.push(raw),
                }
            }
            if !entries.is_empty() {
                blobs.push(rollup_blob(entries));
            }
            blobs
        };
        let (mut header_blobs, mut rollup_blobs) = (Vec::new(), Vec::new());
        if self.adversarial_first {
            header_blobs.extend(pack_m(&self.metas));
            header_blobs.extend(pack_m(&honest_m));
            rollup_blobs.extend(pack_r(&self.rolls));
            rollup_blobs.extend(pack_r(&honest_r));
        } else {
            header_blobs.extend(pack_m(&honest_m));
            header_blobs.extend(pack_m(&self.metas));
            rollup_blobs.extend(pack_r(&honest_r));
            rollup_blobs.extend(pack_r(&self.rolls));
        }
        // a blob of the wrong namespace in each list, as a Celestia node never returns but a
        // malicious one could
        header_blobs.push(junk_blob(rollup_ns()));
        RawBlobs {
            celestia_height: 1000,
            header_blobs,
            rollup_blobs,
        }
    }
}

/// Fake sequencer CometBFT RPC: commits + validator sets for heights 10, 11 (quorum), 12 (1/3
/// signed); a JSON-RPC error for everything else.
async fn start_fake_sequencer(w: &World) -> wiremock::MockServer {
    use wiremock::{
        matchers::body_partial_json,
        Mock,
        ResponseTemplate,
    };
    let server = wiremock::MockServer::start().await;
    for (b, slots) in [
        (&w.b10, [Slot::Valid, Slot::Valid, Slot::Valid]),
        (&w.b11, [Slot::Valid, Slot::Valid, Slot::Absent]),
        (&w.b12, [Slot::Valid, Slot::Absent, Slot::Nil]),
    ] {
        let height = u32::try_from(b.height().value()).unwrap();
        let block_id = tendermint::block::Id {
            hash: tendermint::Hash::Sha256(b.block_hash().get()),
            part_set_header: tendermint::block::parts::Header::default(),
        };
        let u = Universe::for_block(3, height, block_id);
        let commit = u.commit(&slots);
        // 2 + 2 of 5 is a quorum for block 11 (slots valid, valid, absent); 2 of 5 is none for 12
        let vals = u.validators(&[2, 2, 1], height);
        let signed_header = tendermint::block::signed_header::SignedHeader::new(
            tendermint::block::Header {
                version: tendermint::block::header::Version {
                    block: 1,
                    app: 1,
                },
                chain_id: CHAIN.try_into().unwrap(),
                height: height.into(),
                time: u.time,
                last_block_id: None,
                last_commit_hash: None,
                data_hash: None,
                validators_hash: tendermint::Hash::Sha256([0; 32]),
                next_validators_hash: tendermint::Hash::Sha256([0; 32]),
                consensus_hash: tendermint::Hash::Sha256([0; 32]),
                app_hash: tendermint::AppHash::default(),
                last_results_hash: None,
                evidence_hash: None,
                proposer_address: super::addr(&u.keys[0]),
            },
            commit,
        )
        .unwrap();
        Mock::given(body_partial_json(json!({
            "jsonrpc": "2.0", "method": "commit", "params": {"height": height.to_string()}
        })))
        .respond_with(ResponseTemplate::new(200).set_body_json(tendermint_rpc::response::Wrapper::new_with_id(
            tendermint_rpc::Id::uuid_v4(),
            Some(tendermint_rpc::endpoint::commit::Response {
                signed_header,
                canonical: true,
            }),
            None,
        )))
        .mount(&server)
        .await;
        Mock::given(body_partial_json(json!({
            "jsonrpc": "2.0", "method": "validators", "params": {"height": height.to_string()}
        })))
        .respond_with(ResponseTemplate::new(200).set_body_json(tendermint_rpc::response::Wrapper::new_with_id(
            tendermint_rpc::Id::uuid_v4(),
            Some(vals),
            None,
        )))
        .mount(&server)
        .await;
    }
    // anything else: JSON-RPC level error (not retried by the client)
    Mock::given(wiremock::matchers::any())
        .respond_with(ResponseTemplate::new(200).set_body_json(json!({
            "jsonrpc": "2.0", "id": "00000000-0000-0000-0000-000000000000",
            "error": {"code": -32603, "message": "Internal error", "data": "height must be less than or equal to the current blockchain height"}
        })))
        .with_priority(200)
        .mount(&server)
        .await;
    server
}

fn rollup_state() -> crate::state::StateReceiver {
    use astria_core::{
        execution::v2::ExecutionSession,
        generated::astria::execution::v2 as exec,
    };
    let meta = |number: u64| exec::ExecutedBlockMetadata {
        number,
        hash: format!("hash-{number}"),
        parent_hash: format!("hash-{}", number.wrapping_sub(1)),
        timestamp: Some(pbjson_types::Timestamp {
            seconds: 1,
            nanos: 0,
        }),
        sequencer_block_hash: String::new(),
    };
    // sequencer start 10, rollup start 1, firm number 0 => next expected firm sequencer height 10
    let session = ExecutionSession::try_from_raw(exec::ExecutionSession {
        session_id: "verif".into(),
        execution_session_parameters: Some(exec::ExecutionSessionParameters {
            rollup_id: Some(R.into_raw()),
            rollup_start_block_number: 1,
            rollup_end_block_number: 0,
            sequencer_chain_id: CHAIN.into(),
            sequencer_start_block_height: 10,
            celestia_chain_id: "celestia".into(),
            celestia_search_height_max_look_ahead: 100,
        }),
        commitment_state: Some(exec::CommitmentState {
            soft_executed_block_metadata: Some(meta(0)),
            firm_executed_block_metadata: Some(meta(0)),
            lowest_celestia_search_height: 1,
        }),
    })
    .unwrap();
    let state =
        crate::state::State::try_from_execution_session(&session, crate::config::CommitLevel::SoftAndFirm).unwrap();
    let (tx, rx) = crate::state::channel(state);
    // the sender must stay alive for the receiver to be usable
    std::mem::forget(tx);
    rx
}

#[derive(Debug, Clone, PartialEq, Eq, PartialOrd, Ord)]
struct OutBlock {
    height: u64,
    hash: [u8; 32],
    chain: String,
    txs: Vec<Vec<u8>>,
}

async fn run_case(w: &World, url: &str, case: &Case) -> Result<Vec<OutBlock>, String> {
    let raw = case.raw_blobs(w);
    let client = sequencer_client::HttpClient::new(url).map_err(|e| e.to_string())?;
    let verifier = Arc::new(BlobVerifier::try_new(client, 100_000).map_err(|e| e.to_string())?);
    let state = rollup_state();
    let decoded = tokio::task::spawn_blocking(move || decode_raw_blobs(raw, rollup_ns(), sequencer_ns()))
        .await
        .map_err(|e| format!("decode_raw_blobs panicked: {e}"))?;
    let verified = tokio::spawn(verify_metadata(verifier, decoded, state))
        .await
        .map_err(|e| format!("verify_metadata panicked: {e}"))?;
    let blocks = tokio::task::spawn_blocking(move || reconstruct_blocks_from_verified_blobs(verified, R))
        .await
        .map_err(|e| format!("reconstruct panicked: {e}"))?;
    let mut out: Vec<OutBlock> = blocks
        .into_iter()
        .map(|b| OutBlock {
            height: b.header.height().value(),
            hash: b.block_hash.get(),
            chain: b.header.chain_id().to_string(),
            txs: b.transactions.iter().map(|t| t.to_vec()).collect(),
        })
        .collect();
    out.sort();
    Ok(out)
}

fn judge(w: &World, case: &Case, out: &Result<Vec<OutBlock>, String>) -> Vec<(String, String, String)> {
    let mut bad = Vec::new();
    let blocks = match out {
        Ok(b) => b,
        Err(e) => {
            bad.push(("pipeline-total".to_string(), "pipeline panicked".to_string(), e.clone()));
            return bad;
        }
    };
    let committed: BTreeMap<u64, [u8; 32]> =
        [(10u64, w.b10.block_hash().get()), (11u64, w.b11.block_hash().get())].into_iter().collect();
    for b in blocks {
        match committed.get(&b.height) {
            Some(h) if *h == b.hash && b.chain == CHAIN => {
                let want = w.reference_txs(b.height);
                if !b.txs.is_empty() && b.txs != want {
                    let r2_data: Vec<Vec<u8>> = w
                        .b10
                        .rollup_transactions()
                        .get(&R2)
                        .map(|t| t.transactions().iter().map(|b| b.to_vec()).collect())
                        .unwrap_or_default();
                    let sig = if b.txs == r2_data {
                        "another rollup's data attached"
                    } else {
                        "attached rollup data differs from the block's"
                    };
                    bad.push((
                        "rollup-binding".into(),
                        sig.into(),
                        format!("height {}: attached {:?}, the block's data for this rollup is {:?}", b.height, b.txs, want),
                    ));
                }
                if b.txs.is_empty() && !want.is_empty() {
                    bad.push((
                        "rollup-binding".into(),
                        "block with rollup data reconstructed as empty".into(),
                        format!("height {}: reconstructed without transactions although the block has data for the rollup", b.height),
                    ));
                }
            }
            _ => {
                let sig = if b.height == 12 {
                    "metadata accepted without a quorum commit"
                } else if b.chain != CHAIN {
                    "metadata with a foreign chain id accepted"
                } else if committed.contains_key(&b.height) {
                    "metadata with a block hash other than the committed one accepted"
                } else {
                    "metadata for a height without a verified commit accepted"
                };
                bad.push((
                    "metadata-binding".into(),
                    sig.into(),
                    format!(
                        "reconstructed block height={} hash={} chain={} is not the committed block of that height",
                        b.height,
                        report::hex(&b.hash[..4]),
                        b.chain
                    ),
                ));
            }
        }
    }
    // junk must not starve honest data
    let expect: Vec<u64> = match case.honest {
        HonestPart::Block10 => vec![10],
        HonestPart::Block10And11 => vec![10, 11],
        _ => vec![],
    };
    for h in expect {
        let want = w.reference_txs(h);
        if !blocks.iter().any(|b| b.height == h && b.hash == committed[&h] && b.txs == want) {
            bad.push((
                "honest-not-starved".into(),
                format!("honest block {h} lost"),
                format!("honest metadata and rollup data for height {h} were present but no matching block was reconstructed; got {blocks:?}"),
            ));
        }
    }
    bad
}

fn subsets<T: Copy>(items: &[T], max: usize) -> Vec<Vec<T>> {
    let mut out = vec![vec![]];
    let mut level: Vec<Vec<usize>> = vec![vec![]];
    for _ in 0..max {
        let mut next = Vec::new();
        for s in &level {
            let start = s.last().map_or(0, |l| l + 1);
            for i in start..items.len() {
                let mut t = s.clone();
                t.push(i);
                out.push(t.iter().map(|i| items[*i]).collect());
                next.push(t);
            }
        }
        level = next;
    }
    out
}

#[test]
fn verif_c09_blobs() {
    let mut rep = Report::new("C09", "blobs");
    let rt = tokio::runtime::Builder::new_multi_thread()
        .worker_threads(report::workers())
        .enable_all()
        .build()
        .unwrap();
    let world = Arc::new(World::new());
    let server = rt.block_on(start_fake_sequencer(&world));
    let url = server.uri();
    if let Some(case) = report::load_replay("C09", "blobs") {
        let case = Case::from_json(&case);
        let a = rt.block_on(run_case(&world, &url, &case));
        let b = rt.block_on(run_case(&world, &url, &case));
        assert_eq!(a, b, "uncontrolled nondeterminism");
        println!("REPLAY out={a:?}");
        for (clause, signature, detail) in judge(&world, &case, &a) {
            rep.finding(Finding {
                clause,
                signature,
                detail,
                case: case.to_json(),
            });
        }
        rep.finish();
        return;
    }
    let thorough = report::tier() == Tier::Thorough;
    let (max_m, max_r) = if thorough { (3, 3) } else { (2, 2) };
    let mut cases = Vec::new();
    for honest in HONEST_PARTS {
        for metas in subsets(META_ADVERSARIAL, max_m) {
            for rolls in subsets(ROLL_ADVERSARIAL, max_r) {
                for adversarial_first in [false, true] {
                    for one_blob_per_item in [true, false] {
                        if metas.is_empty() && rolls.is_empty() && adversarial_first {
                            continue;
                        }
                        cases.push(Case {
                            honest: *honest,
                            metas: metas.clone(),
                            rolls: rolls.clone(),
                            adversarial_first,
                            one_blob_per_item,
                        });
                    }
                }
            }
        }
    }
    rep.rule(&format!(
        "one Celestia height holding: honest part in {{both blocks, block 10, metadata only, rollup data only, \
         nothing}} x every subset of <= {max_m} adversarial metadata kinds ({}) x every subset of <= {max_r} \
         adversarial rollup-data kinds ({}) x adversarial blobs before/after honest x one blob per item / one list \
         per author; real decode_raw_blobs -> verify_metadata (fake sequencer RPC: quorum commits for 10 and 11, \
         1/3 commit for 12, RPC error otherwise) -> reconstruct; oracle: every reconstructed block is the committed \
         block of its height with exactly that block's data for the rollup, honest blocks present are reconstructed, \
         no panic. distinct_nontrivial = cases with at least one adversarial item.",
        META_ADVERSARIAL.len(),
        ROLL_ADVERSARIAL.len()
    ));
    let results: Vec<(Case, Result<Vec<OutBlock>, String>)> = rt.block_on(async {
        use futures::StreamExt as _;
        futures::stream::iter(cases.into_iter().map(|case| {
            let world = world.clone();
            let url = url.clone();
            async move {
                let out = tokio::spawn({
                    let case = case.clone();
                    async move { run_case(&world, &url, &case).await }
                })
                .await
                .unwrap_or_else(|e| Err(format!("task panicked: {e}")));
                (case, out)
            }
        }))
        .buffer_unordered(64)
        .collect()
        .await
    });
    let mut outcomes = std::collections::BTreeSet::new();
    for (case, out) in &results {
        rep.add("evaluations", 1);
        if !case.metas.is_empty() || !case.rolls.is_empty() {
            rep.add("distinct_nontrivial", 1);
        }
        outcomes.insert(format!("{out:?}"));
        for (clause, signature, detail) in judge(&world, case, out) {
            rep.finding(Finding {
                clause,
                signature,
                detail,
                case: case.to_json(),
            });
        }
        if rep.wants_sample() && case.metas.len() == max_m && case.rolls.len() == max_r {
            rep.sample(case.to_json().with("reconstructed_heights", J::arr(out.iter().flatten().map(|b| J::i(b.height)))));
        }
    }
    rep.add("distinct_outcomes", outcomes.len());
    rep.assume("the sequencer CometBFT RPC is an in-process HTTP fake serving harness-built commit/validators responses; transport faults below the RPC abstraction are not modelled");
    rep.finish();
    drop(server);
}
