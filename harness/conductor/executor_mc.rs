// C10 — Conductor executes each height once, in order, under any soft/firm interleaving.
// Explicit-state search: the real `executor::Initialized::{execute_soft, execute_firm,
// is_spread_too_large}` with a real `executor::Client` talking over loopback gRPC to a
// contract-enforcing fake rollup, fed through two real `BlockCache`s as the readers do.
// A state is the event history replayed on a fresh executor; deliveries that deviate from the
// in-order stream (duplicate, stale, skip-ahead) carry a deviation cost.
#![allow(clippy::all, clippy::pedantic, dead_code, unused_imports)]

use std::{
    collections::{
        BTreeMap,
        HashMap,
    },
    net::SocketAddr,
    sync::{
        Arc,
        Mutex,
    },
};

use astria_core::{
    execution::v2::ExecutionSession,
    generated::astria::execution::v2::{
        self as raw,
        execution_service_server::{
            ExecutionService,
            ExecutionServiceServer,
        },
    },
    primitive::v1::RollupId,
    protocol::test_utils::ConfigureSequencerBlock,
    sequencerblock::v1::{
        block::FilteredSequencerBlock,
        SequencerBlock,
    },
    Protobuf as _,
};
use sequencer_client::tendermint::block::Height as SequencerHeight;
use tokio_util::{
    sync::CancellationToken,
    task::JoinMap,
};

use super::{
    Client,
    Initialized,
};
#[path = "/verif/engine/mod.rs"]
mod engine;
use engine::{
    explore::{
        self,
        Config as ExploreConfig,
        Model,
        Step,
        Violation,
    },
    json::J,
    report::{
        self,
        Finding,
        Report,
        Tier,
    },
};

use crate::{
    block_cache::BlockCache,
    celestia::ReconstructedBlock,
    config::CommitLevel,
    state::State,
};

const ROLLUP: RollupId = RollupId::new([0x51; 32]);
const WINDOW: u32 = 4;

// ---------------------------------------------------------------------------------------------
// Fake rollup
// ---------------------------------------------------------------------------------------------

#[derive(Clone, Debug, PartialEq, Eq)]
enum Call {
    Execute {
        seq_hash: String,
        parent_hash: String,
        number: u64,
        hash: String,
    },
    Update {
        firm: (u64, String),
        soft: (u64, String),
    },
}

#[derive(Default)]
struct Rollup {
    log: Vec<Call>,
    /// rollup number -> (hash, parent hash, sequencer block hash)
    blocks: BTreeMap<u64, (String, String, String)>,
    session: Option<raw::ExecutionSession>,
    firm: u64,
    soft: u64,
    contract_errors: Vec<String>,
}

#[derive(Clone)]
struct FakeRollup(Arc<Mutex<Rollup>>);

fn block_hash_of(number: u64, seq_hash: &str, parent: &str) -> String {
    format!("{:016x}", report::h64(&(number, seq_hash, parent)))
}

fn meta(number: u64, hash: &str, parent: &str, seq_hash: &str) -> raw::ExecutedBlockMetadata {
    raw::ExecutedBlockMetadata {
        number,
        hash: hash.to_string(),
        parent_hash: parent.to_string(),
        timestamp: Some(pbjson_types::Timestamp {
            seconds: 1,
            nanos: 0,
        }),
        sequencer_block_hash: seq_hash.to_string(),
    }
}

#[async_trait::async_trait]
impl ExecutionService for FakeRollup {
    async fn create_execution_session(
        self: Arc<Self>,
        _request: tonic::Request<raw::CreateExecutionSessionRequest>,
    ) -> Result<tonic::Response<raw::ExecutionSession>, tonic::Status> {
        let r = self.0.lock().unwrap();
        Ok(tonic::Response::new(r.session.clone().expect("session configured")))
    }

    async fn get_executed_block_metadata(
        self: Arc<Self>,
        request: tonic::Request<raw::GetExecutedBlockMetadataRequest>,
    ) -> Result<tonic::Response<raw::ExecutedBlockMetadata>, tonic::Status> {
        let r = self.0.lock().unwrap();
        let number = match request.into_inner().identifier.and_then(|i| i.identifier) {
            Some(raw::executed_block_identifier::Identifier::Number(n)) => n,
            _ => return Err(tonic::Status::invalid_argument("identifier")),
        };
        match r.blocks.get(&number) {
            Some((h, p, s)) => Ok(tonic::Response::new(meta(number, h, p, s))),
            None => Err(tonic::Status::invalid_argument("unknown block")),
        }
    }

    async fn execute_block(
        self: Arc<Self>,
        request: tonic::Request<raw::ExecuteBlockRequest>,
    ) -> Result<tonic::Response<raw::ExecuteBlockResponse>, tonic::Status> {
        let req = request.into_inner();
        let mut r = self.0.lock().unwrap();
        // a rollup executes on top of a block it knows
        let Some((parent_number, _)) = r.blocks.iter().find(|(_, (h, _, _))| *h == req.parent_hash).map(|(n, b)| (*n, b.clone())) else {
            r.contract_errors.push(format!("execute_block on unknown parent {}", req.parent_hash));
            return Err(tonic::Status::failed_precondition("unknown parent"));
        };
        let number = parent_number + 1;
        let hash = block_hash_of(number, &req.sequencer_block_hash, &req.parent_hash);
        r.blocks.insert(number, (hash.clone(), req.parent_hash.clone(), req.sequencer_block_hash.clone()));
        r.log.push(Call::Execute {
            seq_hash: req.sequencer_block_hash.clone(),
            parent_hash: req.parent_hash.clone(),
            number,
            hash: hash.clone(),
        });
        Ok(tonic::Response::new(raw::ExecuteBlockResponse {
            executed_block_metadata: Some(meta(number, &hash, &req.parent_hash, &req.sequencer_block_hash)),
        }))
    }

    async fn update_commitment_state(
        self: Arc<Self>,
        request: tonic::Request<raw::UpdateCommitmentStateRequest>,
    ) -> Result<tonic::Response<raw::CommitmentState>, tonic::Status> {
        let req = request.into_inner();
        let cs = req.commitment_state.ok_or_else(|| tonic::Status::invalid_argument("no state"))?;
        let firm = cs.firm_executed_block_metadata.clone().unwrap();
        let soft = cs.soft_executed_block_metadata.clone().unwrap();
        let mut r = self.0.lock().unwrap();
        r.log.push(Call::Update {
            firm: (firm.number, firm.hash.clone()),
            soft: (soft.number, soft.hash.clone()),
        });
        r.firm = firm.number;
        r.soft = soft.number;
        Ok(tonic::Response::new(cs))
    }
}

struct Worker {
    rt: tokio::runtime::Runtime,
    rollup: FakeRollup,
    addr: SocketAddr,
    metrics: &'static crate::metrics::Metrics,
}

thread_local! {
    static WORKER: std::cell::RefCell<Option<Arc<Worker>>> = const { std::cell::RefCell::new(None) };
}

fn worker() -> Arc<Worker> {
    WORKER.with(|w| {
        let mut slot = w.borrow_mut();
        if slot.is_none() {
            use telemetry::Metrics as _;
            let rt = tokio::runtime::Builder::new_multi_thread().worker_threads(1).enable_all().build().unwrap();
            let rollup = FakeRollup(Arc::new(Mutex::new(Rollup::default())));
            let service = rollup.clone();
            let addr = rt.block_on(async move {
                let listener = tokio::net::TcpListener::bind("127.0.0.1:0").await.unwrap();
                let addr = listener.local_addr().unwrap();
                tokio::spawn(async move {
                    tonic::transport::Server::builder()
                        .add_service(ExecutionServiceServer::new(service))
                        .serve_with_incoming(tokio_stream::wrappers::TcpListenerStream::new(listener))
                        .await
                        .unwrap();
                });
                addr
            });
            let metrics = Box::leak(Box::new(crate::metrics::Metrics::noop_metrics(&()).unwrap()));
            *slot = Some(Arc::new(Worker {
                rt,
                rollup,
                addr,
                metrics,
            }));
        }
        slot.as_ref().unwrap().clone()
    })
}

// ---------------------------------------------------------------------------------------------
// Model
// ---------------------------------------------------------------------------------------------

#[derive(Clone, Copy, Debug, PartialEq, Eq, Hash)]
enum Ev {
    /// the soft (sequencer) reader fetched the block at offset `k` (0-based from the first height)
    SoftArrive(u32),
    FirmArrive(u32),
    ExecSoft,
    ExecFirm,
    /// the soft reader observes the executor's next expected soft height (`drop_obsolete`)
    SoftSync,
}

#[derive(Clone, Copy, Debug)]
struct Setup {
    level: CommitLevel,
    sequencer_start: u64,
    rollup_start: u64,
    look_ahead: u64,
    /// the session starts (conductor restart) with the soft commitment this many blocks ahead of
    /// the firm one; those blocks were executed by an earlier session
    soft_lead: u64,
}

#[derive(Clone, Debug, PartialEq, Eq, Hash)]
struct Obs {
    firm: u64,
    soft: u64,
    soft_queue: Vec<u32>,
    firm_queue: Vec<u32>,
    soft_cache: (u64, Vec<u64>),
    firm_cache: (u64, Vec<u64>),
    /// highest offset each stream has delivered in order (for the deviation cost)
    soft_next: u32,
    firm_next: u32,
    stopped: bool,
    executed: Vec<u32>,
    next_expected_soft: u64,
}

struct St {
    hist: Vec<Ev>,
    obs: Obs,
}

struct ExecModel {
    setup: Setup,
    blocks: Vec<SequencerBlock>,
}

fn commit_level_name(l: CommitLevel) -> &'static str {
    match l {
        CommitLevel::SoftOnly => "SoftOnly",
        CommitLevel::FirmOnly => "FirmOnly",
        CommitLevel::SoftAndFirm => "SoftAndFirm",
    }
}

impl ExecModel {
    fn new(setup: Setup) -> Self {
        let blocks = (0..WINDOW + 1)
            .map(|k| {
                let height = u32::try_from(setup.sequencer_start).unwrap() + k;
                ConfigureSequencerBlock {
                    block_hash: Some(astria_core::sequencerblock::v1::block::Hash::new([(k + 1) as u8; 32])),
                    chain_id: Some("verif-seq".to_string()),
                    height,
                    sequence_data: vec![(ROLLUP, format!("tx-{k}").into_bytes())],
                    unix_timestamp: (1i64, 1u32).into(),
                    signing_key: Some(astria_core::crypto::SigningKey::from([3; 32])),
                    proposer_address: None,
                    ..Default::default()
                }
                .make()
            })
            .collect();
        Self {
            setup,
            blocks,
        }
    }

    fn seq_hash(&self, k: u32) -> String {
        self.blocks[k as usize].block_hash().to_string()
    }

    fn offset_of_hash(&self, h: &str) -> Option<u32> {
        (0..self.blocks.len() as u32).find(|k| self.seq_hash(*k) == h)
    }

    fn soft_block(&self, k: u32) -> FilteredSequencerBlock {
        self.blocks[k as usize].clone().into_filtered_block([ROLLUP])
    }

    fn firm_block(&self, k: u32) -> ReconstructedBlock {
        let b = &self.blocks[k as usize];
        ReconstructedBlock {
            celestia_height: 100 + u64::from(k),
            block_hash: *b.block_hash(),
            header: b.header().clone(),
            transactions: b.rollup_transactions().get(&ROLLUP).map(|t| t.transactions().to_vec()).unwrap_or_default(),
            extended_commit_info: None,
        }
    }

    fn viol(&self, clause: &str, signature: &str, detail: String) -> Violation {
        Violation {
            clause: clause.into(),
            signature: signature.into(),
            detail: format!(
                "{} start=({},{}) look_ahead={} soft_lead={}: {detail}",
                commit_level_name(self.setup.level),
                self.setup.sequencer_start,
                self.setup.rollup_start,
                self.setup.look_ahead,
                self.setup.soft_lead
            ),
        }
    }

    fn run(&self, hist: &[Ev]) -> Result<Obs, Violation> {
        let w = worker();
        let genesis_number = self.setup.rollup_start - 1;
        let genesis_hash = "genesis".to_string();
        // reset the fake rollup
        {
            let mut r = w.rollup.0.lock().unwrap();
            *r = Rollup::default();
            r.blocks.insert(genesis_number, (genesis_hash.clone(), "pre-genesis".into(), String::new()));
            r.firm = genesis_number;
            // blocks executed by an earlier session
            let mut parent = genesis_hash.clone();
            let mut soft_meta = meta(genesis_number, &genesis_hash, "pre-genesis", "");
            for k in 0..self.setup.soft_lead {
                let number = genesis_number + 1 + k;
                let seq = self.seq_hash(u32::try_from(k).unwrap());
                let hash = block_hash_of(number, &seq, &parent);
                r.blocks.insert(number, (hash.clone(), parent.clone(), seq.clone()));
                soft_meta = meta(number, &hash, &parent, &seq);
                parent = hash;
            }
            r.soft = genesis_number + self.setup.soft_lead;
            r.session = Some(raw::ExecutionSession {
                session_id: "verif-session".into(),
                execution_session_parameters: Some(raw::ExecutionSessionParameters {
                    rollup_id: Some(ROLLUP.into_raw()),
                    rollup_start_block_number: self.setup.rollup_start,
                    rollup_end_block_number: 0,
                    sequencer_chain_id: "verif-seq".into(),
                    sequencer_start_block_height: self.setup.sequencer_start,
                    celestia_chain_id: "celestia".into(),
                    celestia_search_height_max_look_ahead: self.setup.look_ahead,
                }),
                commitment_state: Some(raw::CommitmentState {
                    firm_executed_block_metadata: Some(meta(genesis_number, &genesis_hash, "pre-genesis", "")),
                    soft_executed_block_metadata: Some(soft_meta),
                    lowest_celestia_search_height: 1,
                }),
            });
        }
        let setup = self.setup;
        let result: Result<Obs, Violation> = w.rt.block_on(async {
            let session = ExecutionSession::try_from_raw(w.rollup.0.lock().unwrap().session.clone().unwrap()).unwrap();
            let state = State::try_from_execution_session(&session, setup.level)
                .map_err(|e| self.viol("harness", "invalid session", format!("{e:?}")))?;
            let (state_tx, state_rx) = crate::state::channel(state);
            let (_soft_tx, soft_rx) = tokio::sync::mpsc::channel(16);
            let (_firm_tx, firm_rx) = tokio::sync::mpsc::channel(16);
            let config = crate::Config {
                celestia_block_time_ms: 1000,
                celestia_node_http_url: "http://127.0.0.1:1".into(),
                no_celestia_auth: true,
                celestia_bearer_token: String::new(),
                sequencer_grpc_url: "http://127.0.0.1:1".into(),
                sequencer_cometbft_url: "http://127.0.0.1:1".into(),
                sequencer_block_time_ms: 1000,
                sequencer_requests_per_second: 100,
                execution_rpc_url: format!("http://{}", w.addr),
                log: "info".into(),
                execution_commit_level: setup.level,
                force_stdout: false,
                no_otel: true,
                no_metrics: true,
                metrics_http_listener_addr: String::new(),
            };
            let client = Client::connect_lazy(&config.execution_rpc_url).unwrap();
            let mut exec = Initialized {
                config,
                client,
                firm_blocks: firm_rx,
                soft_blocks: soft_rx,
                shutdown: CancellationToken::new(),
                state: state_tx,
                blocks_pending_finalization: HashMap::new(),
                metrics: w.metrics,
                reader_tasks: JoinMap::new(),
                reader_cancellation_token: CancellationToken::new(),
            };
            let mut soft_cache: BlockCache<FilteredSequencerBlock> =
                BlockCache::with_next_height(state_rx.next_expected_soft_sequencer_height()).unwrap();
            let mut firm_cache: BlockCache<ReconstructedBlock> =
                BlockCache::with_next_height(state_rx.next_expected_firm_sequencer_height()).unwrap();
            let mut soft_queue: Vec<u32> = Vec::new();
            let mut firm_queue: Vec<u32> = Vec::new();
            let mut soft_cache_content: Vec<u64> = Vec::new();
            let mut firm_cache_content: Vec<u64> = Vec::new();
            let mut soft_next = u32::try_from(setup.soft_lead).unwrap();
            let mut firm_next = 0u32;
            let mut stopped = false;
            let mut deviations = 0u32;
            let offset = |h: u64| u32::try_from(h - setup.sequencer_start).unwrap();
            for ev in hist {
                if stopped {
                    break;
                }
                match ev {
                    Ev::SoftArrive(k) => {
                        if *k == soft_next {
                            soft_next += 1;
                        } else {
                            deviations += 1;
                        }
                        let h = setup.sequencer_start + u64::from(*k);
                        if soft_cache.insert(self.soft_block(*k)).is_ok() {
                            soft_cache_content.push(h);
                        }
                        while let Some(b) = soft_cache.pop() {
                            soft_queue.push(offset(b.height().value()));
                        }
                        let next = soft_cache.next_height_to_pop();
                        soft_cache_content.retain(|x| *x >= next);
                    }
                    Ev::SoftSync => {
                        soft_cache.drop_obsolete(state_rx.next_expected_soft_sequencer_height());
                        while let Some(b) = soft_cache.pop() {
                            soft_queue.push(offset(b.height().value()));
                        }
                        let next = soft_cache.next_height_to_pop();
                        soft_cache_content.retain(|x| *x >= next);
                    }
                    Ev::FirmArrive(k) => {
                        if *k == firm_next {
                            firm_next += 1;
                        } else {
                            deviations += 1;
                        }
                        let h = setup.sequencer_start + u64::from(*k);
                        if firm_cache.insert(self.firm_block(*k)).is_ok() {
                            firm_cache_content.push(h);
                        }
                        while let Some(b) = firm_cache.pop() {
                            firm_queue.push(offset(b.sequencer_height().value()));
                        }
                        let next = firm_cache.next_height_to_pop();
                        firm_cache_content.retain(|x| *x >= next);
                    }
                    Ev::ExecSoft => {
                        if soft_queue.is_empty() || exec.is_spread_too_large() {
                            return Err(self.viol("harness", "ExecSoft not enabled", format!("{hist:?}")));
                        }
                        let k = soft_queue.remove(0);
                        if exec.execute_soft(self.soft_block(k)).await.is_err() {
                            stopped = true;
                        }
                    }
                    Ev::ExecFirm => {
                        if firm_queue.is_empty() {
                            return Err(self.viol("harness", "ExecFirm not enabled", format!("{hist:?}")));
                        }
                        let k = firm_queue.remove(0);
                        if exec.execute_firm(Box::new(self.firm_block(k))).await.is_err() {
                            stopped = true;
                        }
                    }
                }
            }
            // ------------------------------------------------------------------ oracle on the rollup's log
            let r = w.rollup.0.lock().unwrap();
            let lead = u32::try_from(setup.soft_lead).unwrap();
            let mut executed: Vec<u32> = (0..lead).collect();
            let mut last_hash = r.blocks.get(&(genesis_number + setup.soft_lead)).map(|b| b.0.clone()).unwrap_or_else(|| genesis_hash.clone());
            let (mut firm_n, mut soft_n) = (genesis_number, genesis_number + setup.soft_lead);
            for call in &r.log {
                match call {
                    Call::Execute {
                        seq_hash,
                        parent_hash,
                        number,
                        hash,
                    } => {
                        let Some(k) = self.offset_of_hash(seq_hash) else {
                            return Err(self.viol("once-in-order", "unknown sequencer block executed", seq_hash.clone()));
                        };
                        let want = executed.len() as u32;
                        if k != want {
                            let sig = if executed.contains(&k) {
                                "a sequencer height was executed twice"
                            } else if k < want {
                                "a stale sequencer height was executed"
                            } else {
                                "a sequencer height was skipped"
                            };
                            return Err(self.viol(
                                "once-in-order",
                                sig,
                                format!("ExecuteBlock for offset {k} after offsets {executed:?}; history {hist:?}"),
                            ));
                        }
                        if *parent_hash != last_hash {
                            return Err(self.viol(
                                "parent-chain",
                                "block not executed on top of the previous height's block",
                                format!("offset {k}: parent {parent_hash}, previous block {last_hash}; history {hist:?}"),
                            ));
                        }
                        if *number != genesis_number + 1 + u64::from(k) {
                            return Err(self.viol("parent-chain", "rollup number does not match the sequencer height", format!("offset {k} -> number {number}")));
                        }
                        last_hash = hash.clone();
                        executed.push(k);
                    }
                    Call::Update {
                        firm,
                        soft,
                    } => {
                        if firm.0 < firm_n || soft.0 < soft_n {
                            return Err(self.viol(
                                "commitments-monotone",
                                "a commitment decreased",
                                format!("firm {firm_n} -> {}, soft {soft_n} -> {}; history {hist:?}", firm.0, soft.0),
                            ));
                        }
                        if firm.0 > soft.0 {
                            return Err(self.viol("commitments-monotone", "firm commitment above soft", format!("firm {} soft {}", firm.0, soft.0)));
                        }
                        for (which, (n, h)) in [("firm", firm), ("soft", soft)] {
                            match r.blocks.get(n) {
                                Some((bh, _, _)) if bh == h => {}
                                other => {
                                    return Err(self.viol(
                                        "commitment-names-executed-block",
                                        "commitment names a block that was not executed at that number",
                                        format!("{which} commitment ({n}, {h}), rollup has {other:?}; history {hist:?}"),
                                    ));
                                }
                            }
                        }
                        firm_n = firm.0;
                        soft_n = soft.0;
                    }
                }
            }
            if !r.contract_errors.is_empty() {
                return Err(self.viol("parent-chain", "rollup contract violated", format!("{:?}; history {hist:?}", r.contract_errors)));
            }
            // non-vacuity: an in-order history must not stop the executor
            if stopped && deviations == 0 {
                return Err(self.viol(
                    "honest-stream-executed",
                    "executor stopped on in-order streams",
                    format!("history {hist:?}"),
                ));
            }
            Ok(Obs {
                firm: firm_n,
                soft: soft_n,
                soft_queue,
                firm_queue,
                soft_cache: (soft_cache.next_height_to_pop(), soft_cache_content),
                firm_cache: (firm_cache.next_height_to_pop(), firm_cache_content),
                soft_next,
                firm_next,
                stopped,
                executed,
                next_expected_soft: state_rx.next_expected_soft_sequencer_height().value(),
            })
        });
        result
    }
}

impl Model for ExecModel {
    type Ev = Ev;
    type St = St;

    fn init(&self) -> St {
        St {
            hist: vec![],
            obs: self.run(&[]).ok().expect("empty run"),
        }
    }

    fn enabled(&self, st: &St, _hist: &[Ev]) -> Vec<Ev> {
        if st.obs.stopped {
            return vec![];
        }
        let mut v = Vec::new();
        let with_soft = self.setup.level.is_with_soft();
        let with_firm = self.setup.level.is_with_firm();
        // executor steps first (default path), then in-order deliveries, then deviations
        if with_firm && !st.obs.firm_queue.is_empty() {
            v.push(Ev::ExecFirm);
        }
        if with_soft && !st.obs.soft_queue.is_empty() {
            // `is_spread_too_large` of the real executor gates the soft branch
            let next_firm = st.obs.firm + 1;
            let next_soft = st.obs.soft + 1;
            let too_large = with_firm && next_soft.saturating_sub(next_firm) >= self.setup.look_ahead;
            if !too_large {
                v.push(Ev::ExecSoft);
            }
        }
        if with_soft && st.obs.soft_cache.0 < st.obs.next_expected_soft {
            v.push(Ev::SoftSync);
        }
        if with_soft {
            for k in 0..WINDOW {
                v.push(Ev::SoftArrive(k));
            }
        }
        if with_firm {
            for k in 0..WINDOW {
                v.push(Ev::FirmArrive(k));
            }
        }
        v
    }

    fn cost(&self, _ev: &Ev) -> u32 {
        0
    }

    fn step(&self, st: &St, _hist: &[Ev], ev: &Ev) -> Step<St> {
        // deviation bound: count deliveries that are not the stream's next in-order block
        let deviates = match ev {
            Ev::SoftArrive(k) => *k != st.obs.soft_next,
            Ev::FirmArrive(k) => *k != st.obs.firm_next,
            _ => false,
        };
        let past = st
            .hist
            .iter()
            .scan((u32::try_from(self.setup.soft_lead).unwrap(), 0u32), |(s, f), e| {
                let d = match e {
                    Ev::SoftArrive(k) => {
                        let d = *k != *s;
                        if !d {
                            *s += 1;
                        }
                        d
                    }
                    Ev::FirmArrive(k) => {
                        let d = *k != *f;
                        if !d {
                            *f += 1;
                        }
                        d
                    }
                    _ => false,
                };
                Some(d)
            })
            .filter(|d| *d)
            .count() as u32;
        if past + u32::from(deviates) > MAX_DEVIATIONS.load(std::sync::atomic::Ordering::Relaxed) {
            return Step::Skip;
        }
        let mut hist = st.hist.clone();
        hist.push(*ev);
        match self.run(&hist) {
            Ok(obs) => Step::Next(St {
                hist,
                obs,
            }),
            Err(v) => Step::Violated(v),
        }
    }

    fn canon(&self, st: &St) -> u128 {
        report::h128(&st.obs)
    }

    fn outcome(&self, st: &St) -> u64 {
        report::h64(&(st.obs.executed.len(), st.obs.firm, st.obs.soft, st.obs.stopped))
    }
}

static MAX_DEVIATIONS: std::sync::atomic::AtomicU32 = std::sync::atomic::AtomicU32::new(1);

fn ev_json(ev: &Ev) -> J {
    J::s(match ev {
        Ev::SoftArrive(k) => format!("soft_arrive:{k}"),
        Ev::FirmArrive(k) => format!("firm_arrive:{k}"),
        Ev::ExecSoft => "exec_soft".into(),
        Ev::ExecFirm => "exec_firm".into(),
        Ev::SoftSync => "soft_sync".into(),
    })
}

fn ev_parse(s: &str) -> Ev {
    match s {
        "exec_soft" => Ev::ExecSoft,
        "exec_firm" => Ev::ExecFirm,
        "soft_sync" => Ev::SoftSync,
        other => {
            let (a, k) = other.split_once(':').unwrap();
            let k: u32 = k.parse().unwrap();
            if a == "soft_arrive" {
                Ev::SoftArrive(k)
            } else {
                Ev::FirmArrive(k)
            }
        }
    }
}

fn setups(thorough: bool) -> Vec<Setup> {
    let mut v = Vec::new();
    for level in [CommitLevel::SoftAndFirm, CommitLevel::SoftOnly, CommitLevel::FirmOnly] {
        for (sequencer_start, rollup_start) in if thorough { vec![(10, 1), (1, 1), (10, 4)] } else { vec![(10, 1)] } {
            for look_ahead in if level == CommitLevel::SoftAndFirm { vec![2u64, 1, 16] } else { vec![2] } {
                if !thorough && look_ahead == 16 {
                    continue;
                }
                v.push(Setup {
                    level,
                    sequencer_start,
                    rollup_start,
                    look_ahead,
                    soft_lead: 0,
                });
            }
        }
    }
    // restarts with the soft commitment ahead of the firm one (only meaningful with both streams)
    for soft_lead in if thorough { vec![1u64, 2, 3] } else { vec![2] } {
        for look_ahead in if thorough { vec![4u64, 2] } else { vec![4] } {
            v.push(Setup {
                level: CommitLevel::SoftAndFirm,
                sequencer_start: 10,
                rollup_start: 1,
                look_ahead,
                soft_lead,
            });
        }
    }
    v
}

#[test]
fn verif_c10() {
    let mut rep = Report::new("C10", "executor");
    let thorough = report::tier() == Tier::Thorough;
    if let Some(case) = report::load_replay("C10", "executor") {
        let level = match case.get("level").and_then(J::as_str) {
            Some("SoftOnly") => CommitLevel::SoftOnly,
            Some("FirmOnly") => CommitLevel::FirmOnly,
            _ => CommitLevel::SoftAndFirm,
        };
        let g = |k: &str| case.get(k).and_then(J::as_int).unwrap() as u64;
        let m = ExecModel::new(Setup {
            level,
            sequencer_start: g("sequencer_start"),
            rollup_start: g("rollup_start"),
            look_ahead: g("look_ahead"),
            soft_lead: case.get("soft_lead").and_then(J::as_int).unwrap_or(0) as u64,
        });
        MAX_DEVIATIONS.store(99, std::sync::atomic::Ordering::Relaxed);
        let hist: Vec<Ev> = case.get("history").and_then(J::as_arr).unwrap().iter().map(|j| ev_parse(j.as_str().unwrap())).collect();
        let a = explore::replay(&m, &hist);
        let b = explore::replay(&m, &hist);
        assert_eq!(format!("{a:?}"), format!("{b:?}"), "uncontrolled nondeterminism");
        if let Ok(Some(v)) = a {
            rep.finding(Finding {
                clause: v.clause,
                signature: v.signature,
                detail: v.detail,
                case,
            });
        }
        rep.finish();
        return;
    }
    let (depth, deviations) = if thorough { (16, 3) } else { (11, 2) };
    MAX_DEVIATIONS.store(deviations, std::sync::atomic::Ordering::Relaxed);
    rep.rule(&format!(
        "BFS over every interleaving of <= {depth} events from {{soft reader delivers block k, firm reader delivers block k \
         (k in a window of {WINDOW} heights; any k that is not the stream's next in-order block is a deviation: duplicate, stale, \
         skip-ahead; at most {deviations} deviations per history), executor takes the next soft block (only while the real \
         is_spread_too_large() is false), executor takes the next firm block}} for commit levels, session offsets, look-aheads and restarts with the soft commitment ahead of the firm one {:?}; each \
         state is the history replayed on a fresh real Initialized executor (real BlockCache x2, execute_soft / execute_firm, \
         real gRPC Client) against a fake rollup that executes on top of the named parent and logs every RPC; oracle on the log: \
         one ExecuteBlock per height, increasing, on the previous block; commitments monotone, firm <= soft, each naming the \
         block executed at that number; in-order streams never stop the executor",
        setups(thorough).iter().map(|s| format!("{}:{}:{}:{}", commit_level_name(s.level), s.sequencer_start, s.rollup_start, s.look_ahead)).collect::<Vec<_>>()
    ));
    let mut outcomes = 0;
    for setup in setups(thorough) {
        let m = ExecModel::new(setup);
        let out = explore::explore(
            &m,
            &ExploreConfig {
                max_depth: depth,
                workers: report::workers(),
                time_cap: std::time::Duration::from_secs(if thorough { 2400 } else { 200 }),
                ..ExploreConfig::default()
            },
        );
        println!(
            "NOTE C10 {} start=({},{}) look_ahead={} soft_lead={} depth={depth}: states={} transitions={} skipped={} outcomes={} violations={}",
            commit_level_name(setup.level),
            setup.sequencer_start,
            setup.rollup_start,
            setup.look_ahead,
            setup.soft_lead,
            out.states,
            out.transitions,
            out.skipped,
            out.distinct_outcomes,
            out.violations.len()
        );
        rep.add("states", out.states);
        rep.add("transitions", out.transitions);
        rep.add("traces_validated_against_impl", out.transitions);
        outcomes = outcomes.max(out.distinct_outcomes);
        if let Some(cap) = &out.cap_hit {
            rep.cap_hit(cap);
        }
        for v in &out.violations {
            rep.finding(Finding {
                clause: v.violation.clause.clone(),
                signature: v.violation.signature.clone(),
                detail: v.violation.detail.clone(),
                case: J::obj()
                    .with("level", J::s(commit_level_name(setup.level)))
                    .with("sequencer_start", J::i(setup.sequencer_start))
                    .with("rollup_start", J::i(setup.rollup_start))
                    .with("look_ahead", J::i(setup.look_ahead))
                    .with("soft_lead", J::i(setup.soft_lead))
                    .with("history", J::arr(v.history.iter().map(ev_json))),
            });
        }
        for h in out.sample_histories.iter().take(1) {
            rep.sample(J::obj().with("level", J::s(commit_level_name(setup.level))).with("history", J::arr(h.iter().map(ev_json))));
        }
    }
    rep.add("distinct_outcomes", outcomes);
    rep.set_extra("depth", J::i(depth));
    rep.set_extra("max_deviations", J::i(deviations));
    rep.assume("the executor's select loop only chooses between execute_soft and execute_firm; the readers are modelled as: follow the executor's next expected height (drop_obsolete), insert into the real BlockCache, forward every sequential block; channel capacities are not modelled");
    rep.finish();
}
