// C08 — Merkle tree: RFC 6962 roots, complete and sound proofs, total verification.
// Bounded-exhaustive input enumeration on the real `astria-merkle` code (in-crate, so the private
// index functions are reachable). The reference (`mth`, `ref_path`, `RefShape`) is written from
// RFC 6962 section 2.1 and calls nothing of the crate under test.
#![allow(clippy::all, clippy::pedantic, dead_code)]

#[path = "/verif/engine/mod.rs"]
mod engine;

use std::collections::HashMap;

use engine::{
    json::J,
    report::{
        self,
        catch_quiet,
        Finding,
        Report,
        Tier,
    },
};
use sha2::{
    Digest as _,
    Sha256,
};

use super::{
    audit::UncheckedProof,
    Proof,
    Tree,
};

// ---------------------------------------------------------------------------------------------
// Reference: RFC 6962 Merkle Tree Hash and audit paths, memoised over leaf ranges.
// ---------------------------------------------------------------------------------------------

fn ref_leaf_hash(d: &[u8]) -> [u8; 32] {
    let mut h = Sha256::new();
    h.update([0u8]);
    h.update(d);
    h.finalize().into()
}

fn ref_node_hash(l: &[u8; 32], r: &[u8; 32]) -> [u8; 32] {
    let mut h = Sha256::new();
    h.update([1u8]);
    h.update(l);
    h.update(r);
    h.finalize().into()
}

/// Largest power of two strictly smaller than `n` (n >= 2).
fn split(n: usize) -> usize {
    let mut k = 1usize;
    while k * 2 < n {
        k *= 2;
    }
    k
}

struct RefTree {
    leaf_hashes: Vec<[u8; 32]>,
    memo: HashMap<(usize, usize), [u8; 32]>,
}

impl RefTree {
    fn new(leaves: &[Vec<u8>]) -> Self {
        let mut t = Self {
            leaf_hashes: leaves.iter().map(|l| ref_leaf_hash(l)).collect(),
            memo: HashMap::new(),
        };
        if !leaves.is_empty() {
            t.fill(0, leaves.len());
        }
        t
    }

    fn fill(&mut self, start: usize, len: usize) -> [u8; 32] {
        if len == 1 {
            return self.leaf_hashes[start];
        }
        let k = split(len);
        let l = self.fill(start, k);
        let r = self.fill(start + k, len - k);
        let h = ref_node_hash(&l, &r);
        self.memo.insert((start, len), h);
        h
    }

    fn mth(&self, start: usize, len: usize) -> [u8; 32] {
        if len == 0 {
            return Sha256::digest(b"").into();
        }
        if len == 1 {
            return self.leaf_hashes[start];
        }
        self.memo[&(start, len)]
    }

    fn root(&self) -> [u8; 32] {
        self.mth(0, self.leaf_hashes.len())
    }

    /// PATH(m, D[start..start+len]) of RFC 6962 2.1.1, leaf-to-root order.
    fn path(&self, m: usize) -> Vec<[u8; 32]> {
        let mut out = Vec::new();
        self.path_in(m, 0, self.leaf_hashes.len(), &mut out);
        out
    }

    fn path_in(&self, m: usize, start: usize, len: usize, out: &mut Vec<[u8; 32]>) {
        if len <= 1 {
            return;
        }
        let k = split(len);
        if m < k {
            self.path_in(m, start, k, out);
            out.push(self.mth(start + k, len - k));
        } else {
            self.path_in(m - k, start + k, len - k, out);
            out.push(self.mth(start, k));
        }
    }
}

/// Reference shape of the flat representation: leaf j at 2j, the branch joining leaf ranges
/// [a, a+k) and [a+k, b) at 2(a+k)-1.
struct RefShape {
    root: usize,
    parent: HashMap<usize, usize>,
    children: HashMap<usize, (usize, usize)>,
}

impl RefShape {
    fn new(n_leaves: usize) -> Self {
        let mut s = Self {
            root: 0,
            parent: HashMap::new(),
            children: HashMap::new(),
        };
        s.root = s.build(0, n_leaves);
        s
    }

    fn build(&mut self, a: usize, len: usize) -> usize {
        if len == 1 {
            return 2 * a;
        }
        let k = split(len);
        let me = 2 * (a + k) - 1;
        let l = self.build(a, k);
        let r = self.build(a + k, len - k);
        self.parent.insert(l, me);
        self.parent.insert(r, me);
        self.children.insert(me, (l, r));
        me
    }
}

// ---------------------------------------------------------------------------------------------
// Input alphabet
// ---------------------------------------------------------------------------------------------

const CLASSES: &[&str] = &["empty", "1byte", "31", "32", "33", "inner-lookalike-65"];

fn leaf(class: usize, i: usize) -> Vec<u8> {
    let tag = (i as u64).to_be_bytes();
    let fill = |len: usize| -> Vec<u8> {
        let mut v = vec![0u8; len];
        for (p, b) in v.iter_mut().enumerate() {
            *b = tag[p % 8] ^ (p as u8).wrapping_mul(31);
        }
        v
    };
    match class {
        0 => Vec::new(),
        1 => vec![(i % 251) as u8],
        2 => fill(31),
        3 => fill(32),
        4 => fill(33),
        // 0x01 || h(x) || h(y): what an inner node's preimage looks like.
        _ => {
            let mut v = vec![1u8];
            v.extend_from_slice(&ref_leaf_hash(&tag));
            v.extend_from_slice(&ref_leaf_hash(&[tag, tag].concat()));
            v
        }
    }
}

fn leaves(class: usize, n: usize) -> Vec<Vec<u8>> {
    (0..n).map(|i| leaf(class, i)).collect()
}

fn depth_of(n_leaves: usize, m: usize) -> usize {
    // length of the reference path
    let mut d = 0;
    let (mut len, mut m) = (n_leaves, m);
    while len > 1 {
        let k = split(len);
        if m < k {
            len = k;
        } else {
            m -= k;
            len -= k;
        }
        d += 1;
    }
    d
}

// ---------------------------------------------------------------------------------------------
// Checks
// ---------------------------------------------------------------------------------------------

fn case_json(kind: &str, class: usize, n: usize, i: usize) -> J {
    J::obj()
        .with("kind", J::s(kind))
        .with("class", J::i(class))
        .with("n_leaves", J::i(n))
        .with("leaf", J::i(i))
}

/// Clauses `root`, `complete`, `shape` for one (class, n).
fn check_tree(rep: &mut Report, class: usize, n: usize, all_indices: bool) {
    let ls = leaves(class, n);
    let reference = RefTree::new(&ls);
    let built = catch_quiet(|| Tree::from_leaves(&ls));
    rep.add("evaluations", 1);
    let tree = match built {
        Ok(t) => t,
        Err((msg, _)) => {
            rep.finding(Finding {
                clause: "root".into(),
                signature: format!("from_leaves panics: {msg}"),
                detail: format!("Tree::from_leaves panicked for n={n}: {msg}"),
                case: case_json("tree", class, n, 0),
            });
            return;
        }
    };
    if tree.root() != reference.root() {
        rep.finding(Finding {
            clause: "root".into(),
            signature: format!("root != MTH (n mod 4 = {}, pow2 = {})", n % 4, n.is_power_of_two()),
            detail: format!(
                "n={n} class={}: Tree::root()={} RFC6962 MTH={}",
                CLASSES[class],
                report::hex(&tree.root()),
                report::hex(&reference.root())
            ),
            case: case_json("tree", class, n, 0),
        });
    }
    if n == 0 {
        if tree.construct_proof(0).is_some() {
            rep.finding(Finding {
                clause: "complete".into(),
                signature: "proof for empty tree".into(),
                detail: "construct_proof(0) on an empty tree returned a proof".into(),
                case: case_json("tree", class, n, 0),
            });
        }
        return;
    }
    if n >= 2 {
        rep.add("distinct_nontrivial", 1);
    }
    // shape helpers against the explicit reference shape
    let size = 2 * n - 1;
    if tree.len() != size {
        rep.finding(Finding {
            clause: "shape".into(),
            signature: "len != 2n-1".into(),
            detail: format!("n={n}: Tree::len()={} expected {size}", tree.len()),
            case: case_json("tree", class, n, 0),
        });
        return;
    }
    if class == 0 {
        let shape = RefShape::new(n);
        let r = catch_quiet(|| {
            let mut bad: Option<String> = None;
            if super::complete_root(size) != shape.root {
                bad = Some(format!(
                    "complete_root({size})={} reference {}",
                    super::complete_root(size),
                    shape.root
                ));
            }
            for (&c, &p) in &shape.parent {
                if bad.is_some() {
                    break;
                }
                let got = super::complete_parent(c, size);
                if got != p {
                    bad = Some(format!("complete_parent({c},{size})={got} reference {p}"));
                }
                let (gp, gs) = super::complete_parent_and_sibling(c, size);
                let (l, r) = shape.children[&p];
                let sib = if l == c { r } else { l };
                if gp != p || gs != sib {
                    bad = Some(format!(
                        "complete_parent_and_sibling({c},{size})=({gp},{gs}) reference ({p},{sib})"
                    ));
                }
            }
            for (&p, &(l, r)) in &shape.children {
                if bad.is_some() {
                    break;
                }
                let gl = super::complete_left_child(p);
                let gr = super::complete_right_child(p, size);
                if (gl, gr) != (l, r) {
                    bad = Some(format!("children({p},{size})=({gl},{gr}) reference ({l},{r})"));
                }
            }
            bad
        });
        rep.add("evaluations", 2 * size);
        match r {
            Ok(None) => {}
            Ok(Some(msg)) => rep.finding(Finding {
                clause: "shape".into(),
                signature: "index helper disagrees with reference shape".into(),
                detail: format!("n={n}: {msg}"),
                case: case_json("tree", class, n, 0),
            }),
            Err((msg, loc)) => rep.finding(Finding {
                clause: "shape".into(),
                signature: format!("index helper panics: {msg}"),
                detail: format!("n={n}: panic {msg} at {loc}"),
                case: case_json("tree", class, n, 0),
            }),
        }
    }
    let root = tree.root();
    let indices: Vec<usize> = if all_indices {
        (0..n).collect()
    } else {
        let mut v = vec![0, n / 2, n - 1];
        v.dedup();
        v
    };
    for i in indices {
        rep.add("evaluations", 1);
        let r = catch_quiet(|| {
            let Some(proof) = tree.construct_proof(i) else {
                return Some("construct_proof returned None for a leaf inside the tree".to_string());
            };
            let want: Vec<u8> = reference.path(i).concat();
            if proof.audit_path() != want.as_slice() {
                return Some(format!(
                    "audit path differs from RFC 6962 PATH: got {} segments, reference {}",
                    proof.len(),
                    want.len() / 32
                ));
            }
            if proof.leaf_index() != i || proof.tree_size().get() != size {
                return Some("proof carries wrong leaf index / tree size".to_string());
            }
            if !proof.verify(&ls[i], root) {
                return Some("constructed proof does not verify".to_string());
            }
            if tree.leaf(i) != Some(ref_leaf_hash(&ls[i])) {
                return Some("Tree::leaf(i) != leaf hash".to_string());
            }
            // round trip through the unchecked form (what the wire decoders do)
            let rt = proof.clone().into_unchecked().try_into_proof();
            match rt {
                Ok(p2) if p2 == proof => None,
                _ => Some("into_unchecked().try_into_proof() does not round-trip".to_string()),
            }
        });
        match r {
            Ok(None) => {
                if rep.wants_sample() && i == n - 1 && n > 4 {
                    rep.sample(case_json("proof-verifies", class, n, i));
                }
            }
            Ok(Some(msg)) => rep.finding(Finding {
                clause: "complete".into(),
                signature: msg.clone(),
                detail: format!("n={n} i={i} class={}: {msg}", CLASSES[class]),
                case: case_json("proof", class, n, i),
            }),
            Err((msg, loc)) => rep.finding(Finding {
                clause: "complete".into(),
                signature: format!("panic: {msg}"),
                detail: format!("n={n} i={i}: panic {msg} at {loc}"),
                case: case_json("proof", class, n, i),
            }),
        }
    }
    rep.add("evaluations", 1);
    if catch_quiet(|| tree.construct_proof(n).is_some()).unwrap_or(true) {
        rep.finding(Finding {
            clause: "complete".into(),
            signature: "proof for leaf outside tree".into(),
            detail: format!("n={n}: construct_proof({n}) returned a proof or panicked"),
            case: case_json("proof", class, n, n),
        });
    }
}

/// Clause `sound`: every single-bit mutation of leaf, path and root makes verify false.
fn check_soundness(rep: &mut Report, class: usize, n: usize) {
    let ls = leaves(class, n);
    let tree = Tree::from_leaves(&ls);
    let root = tree.root();
    for i in 0..n {
        let proof = tree.construct_proof(i).expect("inside tree");
        let unchecked = || UncheckedProof {
            audit_path: proof.audit_path().to_vec(),
            leaf_index: proof.leaf_index(),
            tree_size: proof.tree_size().get(),
        };
        let mut report_bad = |rep: &mut Report, what: String| {
            rep.finding(Finding {
                clause: "sound".into(),
                signature: what.split(' ').next().unwrap_or("").to_string(),
                detail: format!("n={n} i={i} class={}: verify() == true after {what}", CLASSES[class]),
                case: case_json("sound", class, n, i).with("mutation", J::s(what.clone())),
            });
        };
        // leaf bits (+ appended / dropped byte)
        for bit in 0..ls[i].len() * 8 {
            let mut l = ls[i].clone();
            l[bit / 8] ^= 1 << (bit % 8);
            rep.add("evaluations", 1);
            rep.add("distinct_nontrivial", 1);
            if proof.verify(&l, root) {
                report_bad(rep, format!("leaf-bit {bit}"));
            }
        }
        {
            let mut l = ls[i].clone();
            l.push(0);
            rep.add("evaluations", 1);
            if proof.verify(&l, root) {
                report_bad(rep, "leaf-append 0x00".into());
            }
        }
        // another leaf's content under this proof
        for j in 0..n {
            if ls[j] != ls[i] {
                rep.add("evaluations", 1);
                if proof.verify(&ls[j], root) {
                    report_bad(rep, format!("leaf-swap with leaf {j}"));
                }
            }
        }
        // root bits
        for bit in 0..256 {
            let mut r = root;
            r[bit / 8] ^= 1 << (bit % 8);
            rep.add("evaluations", 1);
            rep.add("distinct_nontrivial", 1);
            if proof.verify(&ls[i], r) {
                report_bad(rep, format!("root-bit {bit}"));
            }
        }
        // path bits
        for bit in 0..proof.audit_path().len() * 8 {
            let mut u = unchecked();
            u.audit_path[bit / 8] ^= 1 << (bit % 8);
            rep.add("evaluations", 1);
            rep.add("distinct_nontrivial", 1);
            let p = u.try_into_proof().expect("same shape stays decodable");
            if p.verify(&ls[i], root) {
                report_bad(rep, format!("path-bit {bit}"));
            }
        }
        // path element replaced by another node hash / dropped / swapped
        let segs = proof.len();
        for s in 0..segs {
            let mut u = unchecked();
            u.audit_path.drain(s * 32..(s + 1) * 32);
            rep.add("evaluations", 1);
            let p = u.try_into_proof().expect("decodable");
            if catch_quiet(|| p.verify(&ls[i], root)).unwrap_or(false) {
                report_bad(rep, format!("path-drop segment {s}"));
            }
            if s + 1 < segs {
                let mut u = unchecked();
                let (a, b) = (s * 32, (s + 1) * 32);
                let first: Vec<u8> = u.audit_path[a..b].to_vec();
                let second: Vec<u8> = u.audit_path[b..b + 32].to_vec();
                if first != second {
                    u.audit_path[a..b].copy_from_slice(&second);
                    u.audit_path[b..b + 32].copy_from_slice(&first);
                    rep.add("evaluations", 1);
                    let p = u.try_into_proof().expect("decodable");
                    if p.verify(&ls[i], root) {
                        report_bad(rep, format!("path-swap segments {s},{}", s + 1));
                    }
                }
            }
        }
    }
}

const TOTALITY_SIGS: &[&str] = &[
    "over-long audit path",
    "leaf index >= 2^63",
    "other",
];

fn totality_sig(n: usize, i_depth: usize, segs: usize, leaf_index: usize, tree_size: usize) -> &'static str {
    let _ = (n, tree_size);
    if leaf_index > usize::MAX / 2 {
        TOTALITY_SIGS[1]
    } else if segs > i_depth {
        TOTALITY_SIGS[0]
    } else {
        TOTALITY_SIGS[2]
    }
}

/// Clause `total`: every decodable (audit path, leaf index, tree size) triple goes through
/// try_into_proof / verify / reconstruct / error Display without panicking.
fn check_totality(rep: &mut Report, n: usize, thorough: bool) {
    let class = 3;
    let ls = leaves(class, n);
    let tree = Tree::from_leaves(&ls);
    let root = tree.root();
    let size = 2 * n - 1;
    let max_depth = (0..n).map(|i| depth_of(n, i)).max().unwrap_or(0);
    let mut index_alphabet = vec![0usize, 1, n - 1, n, n + 1, 1 << 62, (1 << 63) - 1, 1 << 63, usize::MAX];
    let mut size_alphabet = vec![
        0usize,
        1,
        2,
        size.saturating_sub(1),
        size,
        size + 1,
        size + 2,
        2 * size + 1,
        1 << 63,
        usize::MAX - 1,
        usize::MAX,
    ];
    if thorough {
        index_alphabet.extend(2..n.saturating_sub(1));
        size_alphabet.extend(3..size.saturating_sub(1));
        size_alphabet.extend([(1 << 32) - 1, 1 << 32, (1 << 62) + 1]);
    }
    index_alphabet.sort_unstable();
    index_alphabet.dedup();
    size_alphabet.sort_unstable();
    size_alphabet.dedup();
    let mut len_alphabet: Vec<usize> = (0..=max_depth + 2).map(|s| s * 32).collect();
    len_alphabet.extend([1, 31, 33, 64 * 32, 65 * 32]);
    let base_path: Vec<u8> = (0..66 * 32).map(|b| (b % 253) as u8).collect();
    for &leaf_index in &index_alphabet {
        for &tree_size in &size_alphabet {
            for &len in &len_alphabet {
                // honest path prefix where there is one, junk beyond it
                let mut path = base_path[..len].to_vec();
                if leaf_index < n {
                    let honest = tree.construct_proof(leaf_index).unwrap();
                    let k = honest.audit_path().len().min(len);
                    path[..k].copy_from_slice(&honest.audit_path()[..k]);
                }
                let i_depth = if leaf_index < n { depth_of(n, leaf_index) } else { 0 };
                rep.add("evaluations", 1);
                let leaf_bytes = ls[leaf_index.min(n - 1)].clone();
                let p2 = path.clone();
                let outcome = catch_quiet(move || {
                    let decoded = UncheckedProof {
                        audit_path: p2,
                        leaf_index,
                        tree_size,
                    }
                    .try_into_proof();
                    match decoded {
                        Err(e) => {
                            // errors are logged by the services: formatting must be total too
                            let mut text = format!("{e}");
                            let mut src: Option<&dyn std::error::Error> = std::error::Error::source(&e);
                            while let Some(s) = src {
                                text.push_str(&format!(": {s}"));
                                src = s.source();
                            }
                            let _ = format!("{e:?}");
                            (false, false, text.len())
                        }
                        Ok(p) => {
                            let v = p.verify(&leaf_bytes, root);
                            let _ = p.reconstruct_root_with_leaf(&leaf_bytes);
                            let _ = p.reconstruct_root_with_leaf_hash([7; 32]);
                            let _ = p.audit().with_leaf_builder().write(b"x").finish_leaf().reconstruct_root();
                            (true, v, p.len())
                        }
                    }
                });
                let case = J::obj()
                    .with("kind", J::s("triple"))
                    .with("n_leaves", J::i(n))
                    .with("audit_path_len", J::i(len))
                    .with("leaf_index", J::s(leaf_index.to_string()))
                    .with("tree_size", J::s(tree_size.to_string()));
                match outcome {
                    Err((msg, loc)) => {
                        let sig = totality_sig(n, i_depth, len / 32, leaf_index, tree_size);
                        rep.finding(Finding {
                            clause: "total".into(),
                            signature: sig.to_string(),
                            detail: format!(
                                "panic `{msg}` at {loc} for audit_path_len={len} leaf_index={leaf_index} \
                                 tree_size={tree_size} (honest tree: {n} leaves, {size} nodes)"
                            ),
                            case,
                        });
                    }
                    Ok((decoded, verified, _)) => {
                        if decoded {
                            rep.add("distinct_nontrivial", 1);
                        }
                        let honest = leaf_index < n
                            && tree_size == size
                            && len == i_depth * 32;
                        if honest && !verified {
                            rep.finding(Finding {
                                clause: "complete".into(),
                                signature: "honest triple does not verify".into(),
                                detail: format!("n={n} leaf_index={leaf_index}"),
                                case,
                            });
                        } else if verified && !honest && leaf_index < n && tree_size == size {
                            // same position claims, different path length: must not verify
                            rep.finding(Finding {
                                clause: "sound".into(),
                                signature: "wrong-length path verifies".into(),
                                detail: format!(
                                    "n={n} leaf_index={leaf_index} path_len={len} verifies against the honest root"
                                ),
                                case,
                            });
                        } else if rep.wants_sample() && decoded && len / 32 > i_depth {
                            rep.sample(case);
                        }
                    }
                }
            }
        }
    }
}

fn replay_case(rep: &mut Report, case: &J) {
    let kind = case.get("kind").and_then(J::as_str).unwrap_or("");
    let geti = |k: &str| -> usize {
        match case.get(k) {
            Some(J::Int(i)) => *i as usize,
            Some(J::Str(s)) => s.parse().unwrap(),
            _ => 0,
        }
    };
    match kind {
        "tree" | "proof" => check_tree(rep, geti("class"), geti("n_leaves"), true),
        "sound" => check_soundness(rep, geti("class"), geti("n_leaves")),
        "triple" => check_totality(rep, geti("n_leaves"), true),
        other => panic!("unknown replay kind {other}"),
    }
}

#[test]
fn verif_engine_selftest() {
    engine::explore::self_test();
    let j = J::obj().with("a", J::arr([J::i(1), J::s("x\"y\n")])).with("b", J::Null);
    assert_eq!(J::parse(&j.render()).unwrap(), j);
}

#[test]
fn verif_c08() {
    let mut rep = Report::new("C08", "merkle");
    if let Some(case) = report::load_replay("C08", "merkle") {
        for round in 0..2 {
            let mut r2 = Report::new("C08", "merkle");
            replay_case(&mut r2, &case);
            println!("REPLAY round {round}: findings={}", r2.n_findings());
            if round == 1 {
                r2.finish();
            }
        }
        return;
    }
    let thorough = report::tier() == Tier::Thorough;
    let (small_max, k_max, sound_max, total_max) = if thorough {
        (130usize, 16u32, 20usize, 12usize)
    } else {
        (70, 11, 9, 6)
    };
    rep.rule(&format!(
        "every leaf count 0..={small_max} x 6 leaf-content classes x every leaf index; every leaf \
         count 2^k-1, 2^k, 2^k+1 for k<={k_max} x every leaf index (class 32-byte); root vs \
         independent RFC 6962 MTH, proof vs RFC 6962 PATH, index helpers vs explicit reference \
         shape; every single-bit/segment mutation of leaf, path, root for trees <= {sound_max} \
         leaves; every (path length, leaf index, tree size) triple from the boundary alphabets for \
         trees <= {total_max} leaves through try_into_proof/verify/reconstruct/Display under \
         catch_unwind. distinct_nontrivial counts trees with >=2 leaves, mutated verifications and \
         decodable triples."
    ));
    for class in 0..CLASSES.len() {
        for n in 0..=small_max {
            check_tree(&mut rep, class, n, true);
        }
    }
    for k in 1..=k_max {
        for n in [(1usize << k) - 1, 1 << k, (1 << k) + 1] {
            if n > small_max {
                check_tree(&mut rep, 0, n, true);
                check_tree(&mut rep, 3, n, true);
            }
        }
    }
    for class in 0..CLASSES.len() {
        for n in 1..=sound_max {
            check_soundness(&mut rep, class, n);
        }
    }
    for n in 1..=total_max {
        check_totality(&mut rep, n, thorough);
    }
    rep.set_extra("max_small_leaves", J::i(small_max));
    rep.set_extra("max_pow2_exponent", J::i(k_max));
    rep.set_extra("soundness_max_leaves", J::i(sound_max));
    rep.set_extra("totality_max_leaves", J::i(total_max));
    rep.assume("SHA-256 from the sha2 crate is correct (shared by implementation and reference)");
    rep.finish();
}
