// C12 — Relayer batching preserves every block exactly and respects the payload bound.
// Explicit-state search over the real `NextSubmission` behind the real
// `BlobSubmitter::{add_sequencer_block_to_next_submission, has_capacity}`: every sequence of
// block deliveries (5 size classes around the 1 MB compressed limit) and takes up to a depth; each
// state is the history replayed on a fresh submitter. The blobs of every taken submission are
// decoded the way the conductor does and compared with the blocks handed in.
#![allow(clippy::all, clippy::pedantic, dead_code, unused_imports)]

#[path = "/verif/engine/mod.rs"]
pub(crate) mod engine;

use std::{
    collections::BTreeMap,
    sync::Arc,
};

use astria_core::{
    brotli::decompress_bytes,
    generated::astria::sequencerblock::v1 as raw,
    primitive::v1::RollupId,
    protocol::test_utils::ConfigureSequencerBlock,
    sequencerblock::v1::{
        SubmittedMetadata,
        SubmittedRollupData,
    },
    Protobuf as _,
};
use engine::{
    explore::{
        self,
        Config,
        Model,
        Step,
        Violation,
    },
    json::J,
    report::{
        self,
        Finding,
        Report,
        Tier,
    },
};
use prost::Message as _;
use sequencer_client::SequencerBlock;
use tokio_util::sync::CancellationToken;

use super::{
    conversion::{
        NextSubmission,
        Submission,
    },
    BlobSubmitter,
};
use crate::IncludeRollup;

const MAX_PAYLOAD: usize = 1_000_000;
const CHAIN_ID: &str = "verif-seq";

fn ra() -> RollupId {
    RollupId::new([0xa1; 32])
}

fn rb() -> RollupId {
    RollupId::new([0xb2; 32])
}

/// Incompressible bytes (xorshift), so that the compressed size tracks the payload size.
fn noise(len: usize, seed: u64) -> Vec<u8> {
    let mut x = seed | 1;
    let mut out = Vec::with_capacity(len);
    while out.len() < len {
        x ^= x << 13;
        x ^= x >> 7;
        x ^= x << 17;
        out.extend_from_slice(&x.to_le_bytes());
    }
    out.truncate(len);
    out
}

/// (name, bytes for rollup a, bytes for rollup b)
const CLASSES: &[(&str, usize, usize)] = &[
    ("tiny", 10, 0),
    ("0.3MB", 200_000, 100_000),
    ("0.5MB", 500_000, 0),
    ("0.7MB", 350_000, 350_000),
    ("0.99MB", 985_000, 0),
    ("no-rollup-data", 0, 0),
];

fn make_block(height: u32, class: usize) -> SequencerBlock {
    let (_, a, b) = CLASSES[class];
    let mut sequence_data = Vec::new();
    if a > 0 {
        sequence_data.push((ra(), noise(a, u64::from(height) * 31 + 7)));
    }
    if b > 0 {
        sequence_data.push((rb(), noise(b, u64::from(height) * 131 + 9)));
    }
    ConfigureSequencerBlock {
        block_hash: Some(astria_core::sequencerblock::v1::block::Hash::new([height as u8; 32])),
        chain_id: Some(CHAIN_ID.to_string()),
        height,
        sequence_data,
        unix_timestamp: (1i64, 1u32).into(),
        signing_key: Some(astria_core::crypto::SigningKey::from([9; 32])),
        proposer_address: None,
        ..Default::default()
    }
    .make()
}

#[derive(Clone, Copy, Debug, PartialEq, Eq, Hash)]
enum Ev {
    Deliver(usize),
    Take,
}

#[derive(Clone, Debug, PartialEq, Eq, Hash)]
struct Obs {
    /// size classes of blocks currently batched (in order) and of the pushed-back block
    batched: Vec<usize>,
    pending: Option<usize>,
    delivered: u32,
}

struct St {
    hist: Vec<Ev>,
    obs: Obs,
}

struct BatchModel {
    filter: &'static str,
    n_classes: usize,
    blocks: Vec<Vec<SequencerBlock>>, // [height-1][class]
    metrics: &'static crate::Metrics,
}

fn new_submitter(filter: &IncludeRollup, metrics: &'static crate::Metrics) -> BlobSubmitter {
    let state = Arc::new(super::super::State::new());
    let key = tendermint::private_key::Secp256k1::from_slice(&[7u8; 32]).unwrap();
    let client_builder = super::super::celestia_client::CelestiaClientBuilder::new(
        "celestia".to_string(),
        0.002,
        "http://127.0.0.1:1".parse().unwrap(),
        super::super::celestia_client::CelestiaKeys::from(key),
        state.clone(),
    )
    .unwrap();
    let (_tx, rx) = tokio::sync::mpsc::channel(1);
    BlobSubmitter {
        client_builder,
        blocks: rx,
        next_submission: NextSubmission::new(filter.clone(), metrics),
        state,
        submission_state_at_startup: None,
        submitter_shutdown_token: CancellationToken::new(),
        pending_block: None,
        metrics,
    }
}

fn filter_of(name: &str) -> IncludeRollup {
    use base64::{
        engine::general_purpose::STANDARD,
        Engine as _,
    };
    match name {
        "all" => IncludeRollup::parse("").unwrap(),
        "only-a" => IncludeRollup::parse(&STANDARD.encode(ra().as_bytes())).unwrap(),
        "only-b" => IncludeRollup::parse(&STANDARD.encode(rb().as_bytes())).unwrap(),
        "only-absent" => IncludeRollup::parse(&STANDARD.encode([0xcc; 32])).unwrap(),
        other => panic!("unknown filter {other}"),
    }
}

struct Taken {
    heights: Vec<u64>,
    compressed_size: usize,
    blob_bytes: usize,
    metadata: Vec<raw::SubmittedMetadata>,
    rollup_data: BTreeMap<RollupId, Vec<raw::SubmittedRollupData>>,
}

fn decode_submission(sub: Submission) -> Result<Taken, String> {
    let compressed_size = sub.compressed_size();
    let heights: Vec<u64> = {
        let v = serde_json::to_value(sub.input_metadata()).map_err(|e| e.to_string())?;
        v.get("sequencer_heights")
            .and_then(|h| h.as_array())
            .map(|a| a.iter().filter_map(|x| x.as_u64().or_else(|| x.as_str().and_then(|s| s.parse().ok()))).collect())
            .unwrap_or_default()
    };
    let blobs = sub.into_blobs();
    let blob_bytes = blobs.iter().map(|b| b.data.len()).sum();
    let seq_ns = astria_core::celestia::namespace_v0_from_sha256_of_bytes(CHAIN_ID.as_bytes());
    let mut metadata = Vec::new();
    let mut rollup_data: BTreeMap<RollupId, Vec<raw::SubmittedRollupData>> = BTreeMap::new();
    for blob in blobs {
        let data = decompress_bytes(&blob.data).map_err(|e| format!("blob does not decompress: {e}"))?;
        if blob.namespace == seq_ns {
            let list = raw::SubmittedMetadataList::decode(&*data).map_err(|e| e.to_string())?;
            metadata.extend(list.entries);
        } else {
            let list = raw::SubmittedRollupDataList::decode(&*data).map_err(|e| e.to_string())?;
            for e in list.entries {
                let checked = SubmittedRollupData::try_from_raw(e.clone()).map_err(|e| format!("{e:?}"))?;
                let ns = astria_core::celestia::namespace_v0_from_rollup_id(checked.rollup_id());
                if ns != blob.namespace {
                    return Err("rollup entry published under another rollup's namespace".into());
                }
                rollup_data.entry(checked.rollup_id()).or_default().push(e);
            }
        }
    }
    Ok(Taken {
        heights,
        compressed_size,
        blob_bytes,
        metadata,
        rollup_data,
    })
}

impl BatchModel {
    fn viol(&self, clause: &str, signature: &str, detail: String) -> Violation {
        Violation {
            clause: clause.into(),
            signature: signature.into(),
            detail: format!("filter={}: {detail}", self.filter),
        }
    }

    /// Replays `hist`; checks every taken submission and the final bookkeeping.
    fn run(&self, hist: &[Ev]) -> Result<Obs, Violation> {
        let rt = tokio::runtime::Builder::new_current_thread().enable_all().build().unwrap();
        rt.block_on(async {
            let filter = filter_of(self.filter);
            let mut submitter = new_submitter(&filter, self.metrics);
            let mut delivered: Vec<(u32, usize)> = Vec::new(); // (height, class) in delivery order
            let mut batched: Vec<(u32, usize)> = Vec::new();
            let mut pending: Option<(u32, usize)> = None;
            let mut emitted: Vec<u64> = Vec::new();
            for ev in hist {
                match ev {
                    Ev::Deliver(class) => {
                        // the run loop only receives a block while `has_capacity()`
                        if !submitter.has_capacity() {
                            return Err(self.viol("harness", "deliver without capacity", format!("{hist:?}")));
                        }
                        let height = delivered.len() as u32 + 1;
                        let block = self.blocks[(height - 1) as usize][*class].clone();
                        delivered.push((height, *class));
                        if let Err(e) = submitter.add_sequencer_block_to_next_submission(block) {
                            return Err(self.viol(
                                "accepts-every-block",
                                "a block that fits alone is refused for good",
                                format!("block {height} ({}) made the submitter fail: {e:#}", CLASSES[*class].0),
                            ));
                        }
                        if submitter.pending_block.is_some() {
                            pending = Some((height, *class));
                        } else {
                            batched.push((height, *class));
                        }
                    }
                    Ev::Take => {
                        let Some(sub) = submitter.next_submission.take().await else {
                            if !batched.is_empty() {
                                return Err(self.viol("exactly-once", "batched blocks vanished", format!("take() returned nothing although {batched:?} were batched")));
                            }
                            continue;
                        };
                        // as in the run loop: the pushed-back block enters the fresh submission
                        let moved = submitter.pending_block.take();
                        let taken = decode_submission(sub).map_err(|e| self.viol("decodable", "published blobs do not decode", e))?;
                        let want_heights: Vec<u64> = batched.iter().map(|(h, _)| u64::from(*h)).collect();
                        if taken.heights != want_heights {
                            return Err(self.viol(
                                "exactly-once",
                                "submission heights differ from the batched blocks",
                                format!("submission reports {:?}, batched {want_heights:?}", taken.heights),
                            ));
                        }
                        if taken.compressed_size > MAX_PAYLOAD {
                            return Err(self.viol(
                                "payload-bound",
                                "compressed payload above the maximum",
                                format!("{} bytes for heights {want_heights:?}", taken.compressed_size),
                            ));
                        }
                        if taken.compressed_size != taken.blob_bytes {
                            return Err(self.viol(
                                "payload-bound",
                                "reported compressed size differs from the blob bytes",
                                format!("reported {} actual {}", taken.compressed_size, taken.blob_bytes),
                            ));
                        }
                        // content: metadata of each block in order; rollup data per included rollup
                        let mut want_meta = Vec::new();
                        let mut want_rollup: BTreeMap<RollupId, Vec<raw::SubmittedRollupData>> = BTreeMap::new();
                        for (h, c) in &batched {
                            let (m, rs) = self.blocks[(*h - 1) as usize][*c].clone().split_for_celestia();
                            want_meta.push(m.into_raw());
                            for r in rs {
                                if filter.should_include(&r.rollup_id()) {
                                    want_rollup.entry(r.rollup_id()).or_default().push(r.into_raw());
                                }
                            }
                        }
                        if taken.metadata != want_meta {
                            return Err(self.viol(
                                "content-exact",
                                "published metadata differs from the blocks' metadata",
                                format!("{} entries published, {} blocks batched", taken.metadata.len(), want_meta.len()),
                            ));
                        }
                        if taken.rollup_data != want_rollup {
                            return Err(self.viol(
                                "content-exact",
                                "published rollup data differs from the blocks' (filtered) rollup data",
                                format!("published rollups {:?}, expected {:?}", taken.rollup_data.keys().collect::<Vec<_>>(), want_rollup.keys().collect::<Vec<_>>()),
                            ));
                        }
                        // the published entries equal `split_for_celestia`'s output byte for byte (proofs
                        // included); that output is audited against the header roots under C07 / C09
                        for m_raw in &taken.metadata {
                            SubmittedMetadata::try_from_raw(m_raw.clone())
                                .map_err(|e| self.viol("content-exact", "published metadata fails verification", format!("{e:?}")))?;
                        }
                        emitted.extend(want_heights);
                        batched.clear();
                        if let Some(block) = moved {
                            let p = pending.take().expect("pending mirror");
                            if let Err(e) = submitter.add_sequencer_block_to_next_submission(block) {
                                return Err(self.viol("accepts-every-block", "pushed-back block refused for good", format!("{e:#}")));
                            }
                            if submitter.pending_block.is_some() {
                                return Err(self.viol("accepts-every-block", "pushed-back block does not fit an empty submission", format!("block {p:?}")));
                            }
                            batched.push(p);
                        }
                    }
                }
            }
            // bookkeeping: everything delivered is emitted, batched or pending — once, in order
            let mut all: Vec<u64> = emitted.clone();
            all.extend(batched.iter().map(|(h, _)| u64::from(*h)));
            all.extend(pending.iter().map(|(h, _)| u64::from(*h)));
            let want: Vec<u64> = delivered.iter().map(|(h, _)| u64::from(*h)).collect();
            if all != want {
                return Err(self.viol("exactly-once", "delivered heights are not accounted for once and in order", format!("accounted {all:?}, delivered {want:?}")));
            }
            Ok(Obs {
                batched: batched.iter().map(|(_, c)| *c).collect(),
                pending: pending.map(|(_, c)| c),
                delivered: delivered.len() as u32,
            })
        })
    }
}

impl Model for BatchModel {
    type Ev = Ev;
    type St = St;

    fn init(&self) -> St {
        St {
            hist: vec![],
            obs: self.run(&[]).ok().expect("empty run"),
        }
    }

    fn enabled(&self, st: &St, _hist: &[Ev]) -> Vec<Ev> {
        let mut v = Vec::new();
        if st.obs.pending.is_none() && (st.obs.delivered as usize) < self.blocks.len() {
            v.extend((0..self.n_classes).map(Ev::Deliver));
        }
        v.push(Ev::Take);
        v
    }

    fn step(&self, st: &St, _hist: &[Ev], ev: &Ev) -> Step<St> {
        let mut hist = st.hist.clone();
        hist.push(*ev);
        match self.run(&hist) {
            Ok(obs) => Step::Next(St {
                hist,
                obs,
            }),
            Err(v) => Step::Violated(v),
        }
    }

    fn canon(&self, st: &St) -> u128 {
        // Behaviour depends on the sizes batched / pushed back, not on the heights (a relabelling
        // of consecutive numbers), so the number of blocks delivered so far is not part of the key.
        report::h128(&(&st.obs.batched, &st.obs.pending))
    }

    fn outcome(&self, st: &St) -> u64 {
        report::h64(&(st.obs.batched.len(), st.obs.pending.is_some()))
    }
}

fn ev_json(ev: &Ev) -> J {
    match ev {
        Ev::Deliver(c) => J::s(format!("deliver:{}", CLASSES[*c].0)),
        Ev::Take => J::s("take"),
    }
}

#[test]
fn verif_c12() {
    use telemetry::Metrics as _;
    let mut rep = Report::new("C12", "batching");
    let thorough = report::tier() == Tier::Thorough;
    let (depth, n_classes) = if thorough { (7, CLASSES.len()) } else { (4, 5) };
    let metrics: &'static crate::Metrics = Box::leak(Box::new(crate::Metrics::noop_metrics(&()).unwrap()));
    let blocks: Vec<Vec<SequencerBlock>> =
        (1..=depth as u32).map(|h| (0..CLASSES.len()).map(|c| make_block(h, c)).collect()).collect();
    let mut model = BatchModel {
        filter: "all",
        n_classes,
        blocks,
        metrics,
    };
    if let Some(case) = report::load_replay("C12", "batching") {
        model.filter = match case.get("filter").and_then(J::as_str) {
            Some("only-a") => "only-a",
            Some("only-b") => "only-b",
            Some("only-absent") => "only-absent",
            _ => "all",
        };
        model.n_classes = CLASSES.len();
        let hist: Vec<Ev> = case
            .get("history")
            .and_then(J::as_arr)
            .unwrap()
            .iter()
            .map(|j| match j.as_str().unwrap() {
                "take" => Ev::Take,
                s => Ev::Deliver(CLASSES.iter().position(|c| Some(c.0) == s.strip_prefix("deliver:")).unwrap()),
            })
            .collect();
        let a = explore::replay(&model, &hist);
        let b = explore::replay(&model, &hist);
        assert_eq!(format!("{a:?}"), format!("{b:?}"), "uncontrolled nondeterminism");
        if let Ok(Some(v)) = a {
            rep.finding(Finding {
                clause: v.clause,
                signature: v.signature,
                detail: v.detail,
                case,
            });
        }
        rep.finish();
        return;
    }
    rep.rule(&format!(
        "BFS over the real NextSubmission behind BlobSubmitter's pending-block logic: every sequence of <= {depth} events from \
         {{deliver(next height, size class in {:?}), take}} for rollup filters {{all, only rollup a (sorts first), only rollup b (sorts after a filtered one), only an absent rollup}}; \
         each state is the history replayed on a fresh submitter; blocks carry incompressible payloads so compressed size tracks \
         payload size; every taken submission is decoded like the conductor does (brotli, protobuf lists, checked types, \
         Merkle audit) and compared with the blocks handed in",
        CLASSES[..n_classes].iter().map(|c| c.0).collect::<Vec<_>>()
    ));
    let mut outcomes = 0;
    for filter in ["all", "only-a", "only-b", "only-absent"] {
        model.filter = filter;
        let out = explore::explore(
            &model,
            &Config {
                // with a filter most payload is dropped and nearly everything fits: one level less
                max_depth: if filter == "all" { depth } else { depth - 1 },
                workers: report::workers(),
                time_cap: std::time::Duration::from_secs(if thorough { 3000 } else { 300 }),
                ..Config::default()
            },
        );
        println!(
            "NOTE C12 filter={filter} depth={depth}: states={} transitions={} outcomes={} per_depth={:?} violations={}",
            out.states,
            out.transitions,
            out.distinct_outcomes,
            out.per_depth_states,
            out.violations.len()
        );
        rep.add("states", out.states);
        rep.add("transitions", out.transitions);
        rep.add("traces_validated_against_impl", out.transitions);
        outcomes = outcomes.max(out.distinct_outcomes);
        if let Some(cap) = &out.cap_hit {
            rep.cap_hit(cap);
        }
        for v in &out.violations {
            rep.finding(Finding {
                clause: v.violation.clause.clone(),
                signature: v.violation.signature.clone(),
                detail: format!("{} | history {:?}", v.violation.detail, v.history.iter().map(|e| ev_json(e).render()).collect::<Vec<_>>()),
                case: J::obj().with("filter", J::s(filter)).with("history", J::arr(v.history.iter().map(ev_json))),
            });
        }
        for h in out.sample_histories.iter().take(2) {
            rep.sample(J::obj().with("filter", J::s(filter)).with("history", J::arr(h.iter().map(ev_json))));
        }
    }
    rep.add("distinct_outcomes", outcomes);
    rep.assume("the select loop of BlobSubmitter::run is mirrored by the harness (deliver only while has_capacity(); after a take the pushed-back block is re-added); its helpers and NextSubmission are the real ones");
    rep.finish();
}
