// C11 — Relayer never skips a sequencer block on Celestia across any crash/restart.
//
// Deviation-bounded exploration of environment answers. The real `Relayer::run` (state file read,
// `read::BlockStream`, block forwarding, `BlobSubmitter::run` with the real `CelestiaClient`) runs
// over in-memory gRPC under a paused tokio clock against a fake Celestia app and a fake sequencer. Every RPC whose outcome matters is a *decision point*; a
// history is the list of answers given so far (accept / reject / time out with the tx lost or
// kept / tx included, pending, evicted / crash now with each fate of the in-flight tx). A crash
// aborts every relayer task, leaves a torn temp file next to the state file, and restarts the
// relayer from the state file on disk. Each state of the search is a history replayed from
// scratch; the oracle looks only at what the fake Celestia confirmed and at the state file.
#![allow(clippy::all, clippy::pedantic, dead_code, unused_imports)]

#[path = "/verif/engine/mod.rs"]
mod engine;

use std::{
    collections::BTreeMap,
    net::SocketAddr,
    path::PathBuf,
    sync::{
        Arc,
        Mutex,
    },
    time::Duration,
};

use astria_core::{
    brotli::decompress_bytes,
    generated::{
        astria::sequencerblock::v1::{
            self as rawblock,
            sequencer_service_client::SequencerServiceClient,
            sequencer_service_server::{
                SequencerService,
                SequencerServiceServer,
            },
        },
        celestia::v1::{
            query_server::{
                Query as BlobQueryService,
                QueryServer as BlobQueryServer,
            },
            Params as BlobParams,
            QueryParamsRequest as QueryBlobParamsRequest,
            QueryParamsResponse as QueryBlobParamsResponse,
        },
        cosmos::{
            auth::v1beta1::{
                query_server::{
                    Query as AuthQueryService,
                    QueryServer as AuthQueryServer,
                },
                BaseAccount,
                Params as AuthParams,
                QueryAccountRequest,
                QueryAccountResponse,
                QueryParamsRequest as QueryAuthParamsRequest,
                QueryParamsResponse as QueryAuthParamsResponse,
            },
            base::{
                abci::v1beta1::TxResponse,
                node::v1beta1::{
                    service_server::{
                        Service as MinGasPriceService,
                        ServiceServer as MinGasPriceServer,
                    },
                    ConfigRequest as MinGasPriceRequest,
                    ConfigResponse as MinGasPriceResponse,
                },
                tendermint::v1beta1::{
                    service_server::{
                        Service as NodeInfoService,
                        ServiceServer as NodeInfoServer,
                    },
                    GetNodeInfoRequest,
                    GetNodeInfoResponse,
                },
            },
            tx::v1beta1::{
                service_server::{
                    Service as TxService,
                    ServiceServer as TxServer,
                },
                BroadcastTxRequest,
                BroadcastTxResponse,
                GetTxRequest,
                GetTxResponse,
                Tx,
            },
        },
        tendermint::{
            p2p::DefaultNodeInfo,
            types::BlobTx,
        },
    },
    primitive::v1::RollupId,
    protocol::test_utils::ConfigureSequencerBlock,
    Protobuf as _,
};
use engine::{
    explore::{
        self,
        Config,
        Model,
        Step,
        Violation,
    },
    json::J,
    report::{
        self,
        Finding,
        Report,
        Tier,
    },
};
use futures::{
    future::{
        Fuse,
        FusedFuture as _,
    },
    FutureExt as _,
    StreamExt as _,
};
use prost::{
    Message as _,
    Name as _,
};
use sequencer_client::tendermint::block::Height as SequencerHeight;
use sha2::{
    Digest as _,
    Sha256,
};
use tokio::sync::Notify;
use tokio_util::sync::CancellationToken;
use tonic::{
    Request,
    Response,
    Status,
};

use super::{
    read,
    submission::SubmissionStateAtStartup,
    write,
    CelestiaClientBuilder,
    CelestiaKeys,
    ForwardFut,
    Relayer,
    State,
};
use crate::IncludeRollup;

const SEQ_CHAIN_ID: &str = "verif-seq";
const CELESTIA_CHAIN_ID: &str = "celestia";
const FIRST: u64 = 1;
const MAX_HEIGHT: u64 = 40;
/// virtual seconds without reaching a decision point before a session counts as quiescent / hung
const HORIZON_SECS: u64 = 400;

// ---------------------------------------------------------------------------------------------
// In-memory gRPC transport: with a paused clock the runtime advances time whenever it is idle, and
// it is idle while bytes sit in a kernel socket; duplex pipes wake the peer task directly, so time
// only moves when every task is really waiting for a timer.
// ---------------------------------------------------------------------------------------------

mod mem {
    use std::{
        future::Future,
        io,
        pin::Pin,
        task::{
            Context,
            Poll,
        },
    };

    use tokio::io::{
        AsyncRead,
        AsyncWrite,
        DuplexStream,
    };

    pub(super) struct Io(DuplexStream);

    impl hyper::rt::Read for Io {
        fn poll_read(mut self: Pin<&mut Self>, cx: &mut Context<'_>, mut buf: hyper::rt::ReadBufCursor<'_>) -> Poll<io::Result<()>> {
            // same as hyper-util's TokioIo
            let n = unsafe {
                let mut tbuf = tokio::io::ReadBuf::uninit(buf.as_mut());
                match AsyncRead::poll_read(Pin::new(&mut self.0), cx, &mut tbuf) {
                    Poll::Ready(Ok(())) => tbuf.filled().len(),
                    other => return other,
                }
            };
            unsafe {
                buf.advance(n);
            }
            Poll::Ready(Ok(()))
        }
    }

    impl hyper::rt::Write for Io {
        fn poll_write(mut self: Pin<&mut Self>, cx: &mut Context<'_>, buf: &[u8]) -> Poll<io::Result<usize>> {
            AsyncWrite::poll_write(Pin::new(&mut self.0), cx, buf)
        }

        fn poll_flush(mut self: Pin<&mut Self>, cx: &mut Context<'_>) -> Poll<io::Result<()>> {
            AsyncWrite::poll_flush(Pin::new(&mut self.0), cx)
        }

        fn poll_shutdown(mut self: Pin<&mut Self>, cx: &mut Context<'_>) -> Poll<io::Result<()>> {
            AsyncWrite::poll_shutdown(Pin::new(&mut self.0), cx)
        }
    }

    /// Client-side connector: every connection is a fresh duplex pipe whose other end is handed to
    /// the server's incoming stream.
    #[derive(Clone)]
    pub(super) struct Connector(pub(super) tokio::sync::mpsc::UnboundedSender<io::Result<DuplexStream>>);

    impl tonic::codegen::Service<http::Uri> for Connector {
        type Error = io::Error;
        type Future = Pin<Box<dyn Future<Output = io::Result<Io>> + Send>>;
        type Response = Io;

        fn poll_ready(&mut self, _cx: &mut Context<'_>) -> Poll<io::Result<()>> {
            Poll::Ready(Ok(()))
        }

        fn call(&mut self, _uri: http::Uri) -> Self::Future {
            let (client, server) = tokio::io::duplex(1 << 20);
            let sent = self.0.send(Ok(server));
            Box::pin(async move {
                sent.map_err(|_| io::Error::new(io::ErrorKind::ConnectionRefused, "server gone"))?;
                Ok(Io(client))
            })
        }
    }

    pub(super) fn channel(connector: Connector, timeout: Option<std::time::Duration>) -> tonic::transport::Channel {
        let mut endpoint = tonic::transport::Endpoint::from_static("http://in-memory");
        if let Some(t) = timeout {
            endpoint = endpoint.timeout(t);
        }
        endpoint.connect_with_connector_lazy(connector)
    }
}

// ---------------------------------------------------------------------------------------------
// Decision points and answers
// ---------------------------------------------------------------------------------------------

#[derive(Clone, Copy, Debug, PartialEq, Eq, Hash, PartialOrd, Ord)]
enum Point {
    /// the account query of `try_prepare` (state file says `started`)
    Prepare,
    /// `BroadcastTx` arrived (state file says `prepared` with this tx's hash)
    Broadcast,
    /// `GetTx` arrived for a tx that sits in the fake's mempool
    GetTx,
}

#[derive(Clone, Copy, Debug, PartialEq, Eq, Hash, PartialOrd, Ord)]
enum Ans {
    /// Prepare: account returned. Broadcast: tx accepted into the mempool. GetTx: tx is included in
    /// a new Celestia block and reported.
    Ok,
    /// Prepare: the process dies here.
    Crash,
    /// Broadcast: non-zero code, tx not in the mempool.
    Reject,
    /// Broadcast: the client sees a timeout; the tx never reached the mempool.
    TimeoutDrop,
    /// Broadcast: the client sees a timeout; the tx is in the mempool.
    TimeoutKeep,
    /// Broadcast: the process dies; the tx never reached the mempool / is in the mempool.
    CrashDrop,
    CrashKeep,
    /// GetTx: not found this time, tx stays in the mempool.
    Pending,
    /// GetTx: tx is evicted from the mempool (never included).
    Evict,
    /// GetTx: the process dies; the tx stays in the mempool / is included / is evicted.
    CrashPending,
    CrashIncluded,
    CrashEvicted,
}

fn answers(p: Point) -> &'static [Ans] {
    match p {
        Point::Prepare => &[Ans::Ok, Ans::Crash],
        Point::Broadcast => &[Ans::Ok, Ans::Reject, Ans::TimeoutDrop, Ans::TimeoutKeep, Ans::CrashDrop, Ans::CrashKeep],
        Point::GetTx => &[Ans::Ok, Ans::Pending, Ans::Evict, Ans::CrashPending, Ans::CrashIncluded, Ans::CrashEvicted],
    }
}

fn is_crash(a: Ans) -> bool {
    matches!(a, Ans::Crash | Ans::CrashDrop | Ans::CrashKeep | Ans::CrashPending | Ans::CrashIncluded | Ans::CrashEvicted)
}

// ---------------------------------------------------------------------------------------------
// The world outside the relayer process
// ---------------------------------------------------------------------------------------------

#[derive(Clone, Debug, PartialEq, Eq, Hash)]
enum TxStatus {
    Mempool,
    Included(u64),
    Gone,
}

#[derive(Clone, Debug)]
struct TxRec {
    heights: Vec<u64>,
    sequence: u64,
    status: TxStatus,
}

struct World {
    script: Vec<Ans>,
    cursor: usize,
    /// set when a decision point is reached with the script used up
    blocked: Option<Point>,
    crash: bool,
    bad_answer: Option<String>,
    txs: BTreeMap<String, TxRec>,
    broadcast_order: Vec<String>,
    celestia_height: u64,
    sequence: u64,
    tip: u64,
    tip_tx: tokio::sync::watch::Sender<u64>,
    notify: Arc<Notify>,
    trace: Vec<(Point, Ans)>,
    served_heights: Vec<u64>,
    log: Vec<String>,
    t0: std::time::Instant,
}

fn wlog(world: &Arc<Mutex<World>>, what: String) {
    let mut w = world.lock().unwrap();
    let t = w.t0.elapsed().as_secs_f64();
    w.log.push(format!("t={t:.3} {what}"));
}

impl World {
    fn include(&mut self, hash: &str) -> u64 {
        self.celestia_height += 1;
        let h = self.celestia_height;
        let seq = self.txs[hash].sequence;
        for (k, t) in self.txs.iter_mut() {
            if k == hash {
                t.status = TxStatus::Included(h);
            } else if t.status == TxStatus::Mempool && t.sequence == seq {
                // same account sequence: can never be included any more
                t.status = TxStatus::Gone;
            }
        }
        self.sequence += 1;
        // the sequencer keeps producing blocks
        if self.tip < MAX_HEIGHT {
            self.tip += 1;
            let _ = self.tip_tx.send(self.tip);
        }
        h
    }
}

enum Decision {
    Answer(Ans),
    Block,
}

fn decide(world: &Arc<Mutex<World>>, point: Point) -> Decision {
    let mut w = world.lock().unwrap();
    if w.cursor < w.script.len() {
        let a = w.script[w.cursor];
        w.cursor += 1;
        if !answers(point).contains(&a) {
            w.bad_answer = Some(format!("answer {a:?} given at {point:?} (decision {})", w.cursor - 1));
            w.blocked = Some(point);
            w.notify.notify_one();
            return Decision::Block;
        }
        w.trace.push((point, a));
        Decision::Answer(a)
    } else {
        w.blocked = Some(point);
        w.notify.notify_one();
        Decision::Block
    }
}

async fn forever<T>() -> T {
    std::future::pending::<T>().await
}

#[derive(Clone)]
struct FakeCelestia(Arc<Mutex<World>>);

fn seq_namespace_id() -> Vec<u8> {
    astria_core::celestia::namespace_v0_from_sha256_of_bytes(SEQ_CHAIN_ID.as_bytes()).id().to_vec()
}

fn heights_of(blob_tx: &BlobTx) -> Vec<u64> {
    let ns = seq_namespace_id();
    let mut out = Vec::new();
    for blob in &blob_tx.blobs {
        if blob.namespace_id.as_ref() != ns.as_slice() {
            continue;
        }
        let data = decompress_bytes(&blob.data).expect("sequencer blob decompresses");
        let list = rawblock::SubmittedMetadataList::decode(&*data).expect("metadata list decodes");
        for e in list.entries {
            out.push(e.header.expect("header").height);
        }
    }
    out
}

#[async_trait::async_trait]
impl NodeInfoService for FakeCelestia {
    async fn get_node_info(self: Arc<Self>, _r: Request<GetNodeInfoRequest>) -> Result<Response<GetNodeInfoResponse>, Status> {
        wlog(&self.0, "node_info".into());
        Ok(Response::new(GetNodeInfoResponse {
            default_node_info: Some(DefaultNodeInfo {
                network: CELESTIA_CHAIN_ID.to_string(),
                ..Default::default()
            }),
            ..Default::default()
        }))
    }
}

#[async_trait::async_trait]
impl AuthQueryService for FakeCelestia {
    async fn account(self: Arc<Self>, request: Request<QueryAccountRequest>) -> Result<Response<QueryAccountResponse>, Status> {
        wlog(&self.0, "account".into());
        match decide(&self.0, Point::Prepare) {
            Decision::Block => forever().await,
            Decision::Answer(Ans::Crash) => {
                {
                    let mut w = self.0.lock().unwrap();
                    w.crash = true;
                    w.notify.notify_one();
                }
                forever().await
            }
            Decision::Answer(_) => {
                let sequence = self.0.lock().unwrap().sequence;
                let account = BaseAccount {
                    address: request.into_inner().address,
                    pub_key: None,
                    account_number: 10,
                    sequence,
                };
                Ok(Response::new(QueryAccountResponse {
                    account: Some(pbjson_types::Any {
                        type_url: BaseAccount::type_url(),
                        value: account.encode_to_vec().into(),
                    }),
                }))
            }
        }
    }

    async fn params(self: Arc<Self>, _r: Request<QueryAuthParamsRequest>) -> Result<Response<QueryAuthParamsResponse>, Status> {
        Ok(Response::new(QueryAuthParamsResponse {
            params: Some(AuthParams {
                max_memo_characters: 256,
                tx_sig_limit: 7,
                tx_size_cost_per_byte: 10,
                sig_verify_cost_ed25519: 590,
                sig_verify_cost_secp256k1: 1000,
            }),
        }))
    }
}

#[async_trait::async_trait]
impl BlobQueryService for FakeCelestia {
    async fn params(self: Arc<Self>, _r: Request<QueryBlobParamsRequest>) -> Result<Response<QueryBlobParamsResponse>, Status> {
        Ok(Response::new(QueryBlobParamsResponse {
            params: Some(BlobParams {
                gas_per_blob_byte: 8,
                gov_max_square_size: 64,
            }),
        }))
    }
}

#[async_trait::async_trait]
impl MinGasPriceService for FakeCelestia {
    async fn config(self: Arc<Self>, _r: Request<MinGasPriceRequest>) -> Result<Response<MinGasPriceResponse>, Status> {
        Ok(Response::new(MinGasPriceResponse {
            minimum_gas_price: "0.002000000000000000utia".to_string(),
        }))
    }
}

fn tx_response(hash: &str, code: u32, height: i64, log: &str) -> TxResponse {
    TxResponse {
        txhash: hash.to_string(),
        code,
        height,
        raw_log: log.to_string(),
        ..TxResponse::default()
    }
}

#[async_trait::async_trait]
impl TxService for FakeCelestia {
    async fn broadcast_tx(self: Arc<Self>, request: Request<BroadcastTxRequest>) -> Result<Response<BroadcastTxResponse>, Status> {
        let req = request.into_inner();
        let blob_tx = BlobTx::decode(req.tx_bytes.as_ref()).map_err(|e| Status::invalid_argument(e.to_string()))?;
        let hash = hex::encode(Sha256::digest(&blob_tx.tx));
        let tx = Tx::decode(blob_tx.tx.as_ref()).map_err(|e| Status::invalid_argument(e.to_string()))?;
        let sequence = tx.auth_info.as_ref().and_then(|a| a.signer_infos.first()).map(|s| s.sequence).unwrap_or(u64::MAX);
        let heights = heights_of(&blob_tx);
        wlog(&self.0, format!("broadcast {} seq={sequence} heights={heights:?}", &hash[..8]));
        // rules of the chain that do not depend on the environment
        {
            let w = self.0.lock().unwrap();
            if let Some(t) = w.txs.get(&hash) {
                if t.status == TxStatus::Mempool {
                    return Ok(Response::new(BroadcastTxResponse {
                        tx_response: Some(tx_response(&hash, 19, 0, "tx already in mempool")),
                    }));
                }
            }
            if sequence != w.sequence {
                return Ok(Response::new(BroadcastTxResponse {
                    tx_response: Some(tx_response(&hash, 32, 0, "account sequence mismatch")),
                }));
            }
        }
        let ans = match decide(&self.0, Point::Broadcast) {
            Decision::Block => forever().await,
            Decision::Answer(a) => a,
        };
        let keep = matches!(ans, Ans::Ok | Ans::TimeoutKeep | Ans::CrashKeep);
        {
            let mut w = self.0.lock().unwrap();
            if keep {
                w.txs.insert(hash.clone(), TxRec {
                    heights,
                    sequence,
                    status: TxStatus::Mempool,
                });
                w.broadcast_order.push(hash.clone());
            }
            if is_crash(ans) {
                w.crash = true;
                w.notify.notify_one();
            }
        }
        match ans {
            Ans::Ok => Ok(Response::new(BroadcastTxResponse {
                tx_response: Some(tx_response(&hash.to_uppercase(), 0, 0, "")),
            })),
            Ans::Reject => Ok(Response::new(BroadcastTxResponse {
                tx_response: Some(tx_response(&hash, 5, 0, "insufficient funds")),
            })),
            Ans::TimeoutDrop | Ans::TimeoutKeep => Err(Status::cancelled("Timeout expired")),
            _ => forever().await,
        }
    }

    async fn get_tx(self: Arc<Self>, request: Request<GetTxRequest>) -> Result<Response<GetTxResponse>, Status> {
        let hash = request.into_inner().hash.to_lowercase();
        let status = self.0.lock().unwrap().txs.get(&hash).map(|t| t.status.clone());
        wlog(&self.0, format!("get_tx {} {status:?}", &hash[..8.min(hash.len())]));
        match status {
            None | Some(TxStatus::Gone) => Err(Status::not_found("tx not found")),
            Some(TxStatus::Included(h)) => Ok(Response::new(GetTxResponse {
                tx: None,
                tx_response: Some(tx_response(&hash, 0, i64::try_from(h).unwrap(), "")),
            })),
            Some(TxStatus::Mempool) => {
                let ans = match decide(&self.0, Point::GetTx) {
                    Decision::Block => forever().await,
                    Decision::Answer(a) => a,
                };
                let mut included = None;
                {
                    let mut w = self.0.lock().unwrap();
                    match ans {
                        Ans::Ok | Ans::CrashIncluded => included = Some(w.include(&hash)),
                        Ans::Evict | Ans::CrashEvicted => w.txs.get_mut(&hash).unwrap().status = TxStatus::Gone,
                        _ => {}
                    }
                    if is_crash(ans) {
                        w.crash = true;
                        w.notify.notify_one();
                    }
                }
                if is_crash(ans) {
                    return forever().await;
                }
                match included {
                    Some(h) => Ok(Response::new(GetTxResponse {
                        tx: None,
                        tx_response: Some(tx_response(&hash, 0, i64::try_from(h).unwrap(), "")),
                    })),
                    None => Err(Status::not_found("tx not found")),
                }
            }
        }
    }
}

#[derive(Clone)]
struct FakeSequencer {
    world: Arc<Mutex<World>>,
    blocks: Arc<Vec<rawblock::SequencerBlock>>,
}

#[async_trait::async_trait]
impl SequencerService for FakeSequencer {
    async fn get_sequencer_block(
        self: Arc<Self>,
        request: Request<rawblock::GetSequencerBlockRequest>,
    ) -> Result<Response<rawblock::SequencerBlock>, Status> {
        let h = request.into_inner().height;
        wlog(&self.world, format!("get_sequencer_block {h}"));
        // Fetching a block takes virtual time. State-file writes run on a blocking-pool thread in
        // real time, during which the paused clock cannot advance: with this delay the reader only
        // makes progress while the submitter waits for a timer, so how many blocks reach the next
        // submission does not depend on how long a file operation really takes.
        tokio::time::sleep(Duration::from_millis(50)).await;
        let tip = {
            let mut w = self.world.lock().unwrap();
            w.served_heights.push(h);
            w.tip
        };
        if h < FIRST || h > tip {
            return Err(Status::not_found("no such block"));
        }
        Ok(Response::new(self.blocks[usize::try_from(h - FIRST).unwrap()].clone()))
    }

    async fn get_filtered_sequencer_block(
        self: Arc<Self>,
        _r: Request<rawblock::GetFilteredSequencerBlockRequest>,
    ) -> Result<Response<rawblock::FilteredSequencerBlock>, Status> {
        Err(Status::unimplemented("not used"))
    }

    async fn get_pending_nonce(
        self: Arc<Self>,
        _r: Request<rawblock::GetPendingNonceRequest>,
    ) -> Result<Response<rawblock::GetPendingNonceResponse>, Status> {
        Err(Status::unimplemented("not used"))
    }

    async fn get_upgrades_info(
        self: Arc<Self>,
        _r: Request<rawblock::GetUpgradesInfoRequest>,
    ) -> Result<Response<rawblock::GetUpgradesInfoResponse>, Status> {
        Err(Status::unimplemented("not used"))
    }

    async fn get_validator_name(
        self: Arc<Self>,
        _r: Request<rawblock::GetValidatorNameRequest>,
    ) -> Result<Response<rawblock::GetValidatorNameResponse>, Status> {
        Err(Status::unimplemented("not used"))
    }
}

// ---------------------------------------------------------------------------------------------
// One relayer process lifetime: the real `Relayer::run` (which reads the state file, starts the
// submitter task and the block stream, and forwards blocks). Only the CometBFT HTTP client is
// replaced, through the cfg(verif) hook that supplies the stream of latest sequencer heights.
// ---------------------------------------------------------------------------------------------

struct Env {
    state_path: PathBuf,
    celestia: mem::Connector,
    sequencer: mem::Connector,
    metrics: &'static crate::Metrics,
    world: Arc<Mutex<World>>,
}

enum SessionEnd {
    StateFileUnreadable(String),
    Exited(String),
}

async fn session(env: Arc<Env>) -> SessionEnd {
    let state = Arc::new(State::new());
    let key = tendermint::private_key::Secp256k1::from_slice(&[7u8; 32]).unwrap();
    // same request timeout as CelestiaClientBuilder::new sets on its endpoint
    let celestia_client_builder = CelestiaClientBuilder::new_with_channel(
        CELESTIA_CHAIN_ID.to_string(),
        0.002,
        mem::channel(env.celestia.clone(), Some(Duration::from_secs(5))),
        CelestiaKeys::from(key),
        state.clone(),
    )
    .unwrap();
    let relayer_shutdown_token = CancellationToken::new();
    let submitter_shutdown_token = relayer_shutdown_token.child_token();
    let relayer = Relayer {
        relayer_shutdown_token,
        submitter_shutdown_token,
        sequencer_chain_id: SEQ_CHAIN_ID.to_string(),
        sequencer_cometbft_client: sequencer_client::HttpClient::new("http://127.0.0.1:1").unwrap(),
        sequencer_grpc_client: SequencerServiceClient::new(mem::channel(env.sequencer.clone(), None)),
        sequencer_poll_period: Duration::from_millis(100),
        celestia_client_builder,
        rollup_filter: IncludeRollup::parse("").unwrap(),
        state,
        submission_state_path: env.state_path.clone(),
        metrics: env.metrics,
    };
    // latest sequencer heights: the current tip, then every change
    let tip_rx = env.world.lock().unwrap().tip_tx.subscribe();
    let heights = futures::stream::unfold((tip_rx, true), |(mut rx, first)| async move {
        if !first && rx.changed().await.is_err() {
            return None;
        }
        let tip = *rx.borrow_and_update();
        Some((Ok(SequencerHeight::try_from(tip).unwrap()), (rx, false)))
    });
    super::verif_hooks::set_latest_height_stream(futures::StreamExt::boxed(heights));
    match relayer.run().await {
        Ok(()) => SessionEnd::Exited("run returned Ok".into()),
        Err(e) => {
            let text = format!("{e:#}");
            if text.contains("submission state") {
                SessionEnd::StateFileUnreadable(text)
            } else {
                SessionEnd::Exited(text)
            }
        }
    }
}

// ---------------------------------------------------------------------------------------------
// Replay of one history
// ---------------------------------------------------------------------------------------------

#[derive(Clone, Copy, Debug)]
struct Setup {
    /// blocks already produced by the sequencer when the relayer first starts
    backlog: u64,
}

#[derive(Clone, Debug, PartialEq, Eq, Hash)]
struct Obs {
    pending: Option<Point>,
    /// why there is no pending point
    rest: Option<String>,
    disk: String,
    txs: Vec<(Vec<u64>, TxStatus)>,
    confirmed: Vec<u64>,
    tip: u64,
    sessions: u32,
}

struct Replayer {
    setup: Setup,
    blocks: Arc<Vec<rawblock::SequencerBlock>>,
    metrics: &'static crate::Metrics,
}

/// What a crash between writing the temp file and renaming it leaves behind: a complete prepared
/// state (the longest content the relayer writes), followed by a newline.
const LEFTOVER_TEMP: &str = "{\n  \"state\": \"prepared\",\n  \"sequencer_height\": 4000000000,\n  \"last_submission\": {\n    \"celestia_height\": 4000000000,\n    \"sequencer_height\": 3999999999\n  },\n  \"blob_tx_hash\": \"abababababababababababababababababababababababababababababababab\",\n  \"at\": \"2024-06-24T22:22:22.222222222Z\"\n}\n";

fn temp_path_of(p: &PathBuf) -> PathBuf {
    // mirrors SubmissionStateAtStartup::new_from_path
    match p.extension().and_then(|e| e.to_str()) {
        Some(ext) => p.with_extension(format!("{ext}.tmp")),
        None => p.with_extension("tmp"),
    }
}

fn normalise_disk(s: &str) -> String {
    match serde_json::from_str::<serde_json::Value>(s) {
        Ok(mut v) => {
            if let Some(o) = v.as_object_mut() {
                o.remove("at");
            }
            v.to_string()
        }
        Err(_) => format!("UNPARSEABLE:{s}"),
    }
}

impl Replayer {
    fn viol(&self, clause: &str, signature: &str, detail: String) -> Violation {
        Violation {
            clause: clause.into(),
            signature: signature.into(),
            detail: format!("backlog={}: {detail}", self.setup.backlog),
        }
    }

    fn run(&self, script: &[Ans]) -> Result<Obs, Violation> {
        let dir = tempfile::tempdir().expect("temp dir");
        let state_path = dir.path().join("submission-state.json");
        std::fs::write(&state_path, "{\"state\": \"fresh\"}").unwrap();
        let notify = Arc::new(Notify::new());
        let tip0 = FIRST + self.setup.backlog - 1;
        let (tip_tx, _tip_rx) = tokio::sync::watch::channel(tip0);
        let world = Arc::new(Mutex::new(World {
            script: script.to_vec(),
            cursor: 0,
            blocked: None,
            crash: false,
            bad_answer: None,
            txs: BTreeMap::new(),
            broadcast_order: vec![],
            celestia_height: 100,
            sequence: 53,
            tip: tip0,
            tip_tx,
            notify: notify.clone(),
            trace: vec![],
            served_heights: vec![],
            log: vec![],
            t0: std::time::Instant::now(),
        }));
        let mut sessions = 0u32;
        let result: Result<(Option<Point>, Option<String>, u32), Violation> = loop {
            sessions += 1;
            world.lock().unwrap().crash = false;
            // one process lifetime = one runtime; dropping it drops every task of the relayer
            let rt = tokio::runtime::Builder::new_current_thread().enable_all().start_paused(true).build().unwrap();
            let end = rt.block_on(async {
                use tokio_stream::wrappers::UnboundedReceiverStream;
                let (celestia_tx, celestia_rx) = tokio::sync::mpsc::unbounded_channel();
                let celestia = mem::Connector(celestia_tx);
                let fake = FakeCelestia(world.clone());
                let _server_c = tokio::spawn(
                    tonic::transport::Server::builder()
                        .add_service(NodeInfoServer::new(fake.clone()))
                        .add_service(AuthQueryServer::new(fake.clone()))
                        .add_service(BlobQueryServer::new(fake.clone()))
                        .add_service(MinGasPriceServer::new(fake.clone()))
                        .add_service(TxServer::new(fake))
                        .serve_with_incoming(UnboundedReceiverStream::new(celestia_rx)),
                );
                let (sequencer_tx, sequencer_rx) = tokio::sync::mpsc::unbounded_channel();
                let sequencer = mem::Connector(sequencer_tx);
                let _server_s = tokio::spawn(
                    tonic::transport::Server::builder()
                        .add_service(SequencerServiceServer::new(FakeSequencer {
                            world: world.clone(),
                            blocks: self.blocks.clone(),
                        }))
                        .serve_with_incoming(UnboundedReceiverStream::new(sequencer_rx)),
                );
                let env = Arc::new(Env {
                    state_path: state_path.clone(),
                    celestia,
                    sequencer,
                    metrics: self.metrics,
                    world: world.clone(),
                });
                let mut main = tokio::spawn(session(env));
                tokio::select!(
                    biased;
                    () = notify.notified() => None,
                    r = &mut main => Some(r),
                    () = tokio::time::sleep(Duration::from_secs(HORIZON_SECS)) => None,
                )
            });
            // the process stops here
            drop(rt);
            if let Some(r) = end {
                match r {
                    Ok(SessionEnd::StateFileUnreadable(e)) => {
                        break Err(self.viol(
                            "state-file-readable",
                            "the relayer cannot start from the state file left by a crash",
                            format!("session {sessions} after answers {:?}: {e}", world.lock().unwrap().trace),
                        ));
                    }
                    Ok(SessionEnd::Exited(e)) => break Ok((None, Some(format!("exited: {e}")), sessions)),
                    Err(e) => break Ok((None, Some(format!("session task failed: {e}")), sessions)),
                }
            }
            let (crash, blocked, bad) = {
                let w = world.lock().unwrap();
                (w.crash, w.blocked, w.bad_answer.clone())
            };
            if let Some(bad) = bad {
                break Err(self.viol("harness", "answer does not fit the decision point", bad));
            }
            wlog(&world, format!("session {sessions} stopped: crash={crash} blocked={blocked:?}"));
            if crash {
                // a crash inside State::write (after the temp file was written, before the rename)
                // leaves a complete temp file behind, longer than anything written next
                std::fs::write(temp_path_of(&state_path), LEFTOVER_TEMP).unwrap();
                continue;
            }
            if let Some(p) = blocked {
                break Ok((Some(p), None, sessions));
            }
            break Ok((None, Some("no decision point within the horizon".into()), sessions));
        };
        if std::env::var("VERIF_TRACE").is_ok() {
            for l in &world.lock().unwrap().log {
                println!("TRACE {l}");
            }
            println!("TRACE result {:?}", result.as_ref().map(|r| (r.0, r.1.clone(), r.2)));
        }
        let (pending, rest, sessions) = result?;
        let disk_raw = std::fs::read_to_string(&state_path).unwrap_or_else(|e| format!("UNREADABLE:{e}"));
        let w = world.lock().unwrap();
        if w.cursor < w.script.len() {
            return Err(self.viol(
                "harness",
                "history not fully consumed",
                format!("{} of {} answers used; rest: {rest:?}; log {:?}", w.cursor, w.script.len(), w.log),
            ));
        }
        let mut confirmed: Vec<u64> = w.txs.values().filter(|t| matches!(t.status, TxStatus::Included(_))).flat_map(|t| t.heights.clone()).collect();
        confirmed.sort_unstable();
        confirmed.dedup();
        // ---- oracle 1: no gap among confirmed heights
        if let Some(&latest) = confirmed.last() {
            if let Some(missing) = (FIRST..=latest).find(|h| !confirmed.contains(h)) {
                return Err(self.viol(
                    "no-gap",
                    "a sequencer height below the latest confirmed one is not on Celestia",
                    format!("height {missing} missing; confirmed {confirmed:?}; txs {:?}; answers {:?}", w.txs.values().collect::<Vec<_>>(), w.trace),
                ));
            }
        }
        // ---- oracle 2: every submission carries consecutive heights in order
        for t in w.txs.values() {
            if t.heights.is_empty() || t.heights.windows(2).any(|p| p[1] != p[0] + 1) {
                return Err(self.viol(
                    "no-gap",
                    "a submission does not carry consecutive heights",
                    format!("tx heights {:?}; answers {:?}", t.heights, w.trace),
                ));
            }
        }
        // ---- oracle 3: the state file parses and claims only what Celestia confirmed
        let disk: serde_json::Value = match serde_json::from_str(&disk_raw) {
            Ok(v) => v,
            Err(e) => {
                return Err(self.viol(
                    "state-file-readable",
                    "state file is not valid JSON",
                    format!("{e}: `{disk_raw}`; answers {:?}", w.trace),
                ));
            }
        };
        if let Some(claimed) = disk.get("last_submission").and_then(|l| l.get("sequencer_height")).and_then(serde_json::Value::as_u64) {
            if let Some(missing) = (FIRST..=claimed).find(|h| !confirmed.contains(h)) {
                return Err(self.viol(
                    "state-claims-only-confirmed",
                    "state file records a height as submitted that Celestia did not confirm",
                    format!("state file {disk} but height {missing} is not confirmed (confirmed {confirmed:?}); answers {:?}", w.trace),
                ));
            }
            if let Some(ch) = disk.get("last_submission").and_then(|l| l.get("celestia_height")).and_then(serde_json::Value::as_u64) {
                let ok = claimed == 0
                    || w.txs.values().any(|t| t.status == TxStatus::Included(ch) && t.heights.last() == Some(&claimed));
                if !ok {
                    return Err(self.viol(
                        "state-claims-only-confirmed",
                        "state file names a Celestia height that does not hold that submission",
                        format!("state file {disk}; txs {:?}; answers {:?}", w.txs.values().collect::<Vec<_>>(), w.trace),
                    ));
                }
            }
        }
        // ---- non-vacuity: with no deviation the relayer keeps relaying
        if script.iter().all(|a| *a == Ans::Ok) && pending.is_none() {
            return Err(self.viol("harness", "relayer stopped on the default path", format!("{rest:?} after {:?}", w.trace)));
        }
        Ok(Obs {
            pending,
            rest,
            disk: normalise_disk(&disk_raw),
            txs: w.broadcast_order.iter().map(|h| (w.txs[h].heights.clone(), w.txs[h].status.clone())).collect(),
            confirmed,
            tip: w.tip,
            sessions,
        })
    }
}

// ---------------------------------------------------------------------------------------------
// Model
// ---------------------------------------------------------------------------------------------

struct St {
    hist: Vec<Ans>,
    obs: Obs,
}

impl Model for Replayer {
    type Ev = Ans;
    type St = St;

    fn init(&self) -> St {
        St {
            hist: vec![],
            obs: self.run(&[]).unwrap_or_else(|v| panic!("initial run: {v:?}")),
        }
    }

    fn enabled(&self, st: &St, _hist: &[Ans]) -> Vec<Ans> {
        st.obs.pending.map_or_else(Vec::new, |p| answers(p).to_vec())
    }

    fn cost(&self, ev: &Ans) -> u32 {
        u32::from(*ev != Ans::Ok)
    }

    fn step(&self, st: &St, _hist: &[Ans], ev: &Ans) -> Step<St> {
        let mut hist = st.hist.clone();
        hist.push(*ev);
        match self.run(&hist) {
            Ok(obs) => Step::Next(St {
                hist,
                obs,
            }),
            Err(v) => Step::Violated(v),
        }
    }

    fn canon(&self, st: &St) -> u128 {
        // in-memory relayer state is not observable, so states are only merged when the whole
        // history agrees (the search is a tree)
        report::h128(&st.hist)
    }

    fn outcome(&self, st: &St) -> u64 {
        report::h64(&(st.obs.pending, &st.obs.disk, &st.obs.confirmed, st.obs.rest.is_some()))
    }
}

fn ans_name(a: &Ans) -> String {
    format!("{a:?}")
}

fn ans_parse(s: &str) -> Ans {
    [Point::Prepare, Point::Broadcast, Point::GetTx]
        .iter()
        .flat_map(|p| answers(*p).iter().copied())
        .find(|a| ans_name(a) == s)
        .unwrap_or_else(|| panic!("unknown answer {s}"))
}

fn make_blocks() -> Arc<Vec<rawblock::SequencerBlock>> {
    Arc::new(
        (FIRST..=MAX_HEIGHT)
            .map(|h| {
                ConfigureSequencerBlock {
                    block_hash: Some(astria_core::sequencerblock::v1::block::Hash::new([h as u8; 32])),
                    chain_id: Some(SEQ_CHAIN_ID.to_string()),
                    height: u32::try_from(h).unwrap(),
                    sequence_data: vec![(RollupId::new([0x51; 32]), format!("payload-{h}").into_bytes())],
                    unix_timestamp: (1i64, 1u32).into(),
                    signing_key: Some(astria_core::crypto::SigningKey::from([3; 32])),
                    proposer_address: None,
                    ..Default::default()
                }
                .make()
                .into_raw()
            })
            .collect(),
    )
}

#[test]
fn verif_c11_crash() {
    let mut rep = Report::new("C11", "crash");
    let thorough = report::tier() == Tier::Thorough;
    let metrics: &'static crate::Metrics = {
        use telemetry::Metrics as _;
        Box::leak(Box::new(crate::Metrics::noop_metrics(&()).unwrap()))
    };
    let blocks = make_blocks();
    if let Some(case) = report::load_replay("C11", "crash") {
        let m = Replayer {
            setup: Setup {
                backlog: case.get("backlog").and_then(J::as_int).unwrap() as u64,
            },
            blocks,
            metrics,
        };
        let hist: Vec<Ans> = case.get("history").and_then(J::as_arr).unwrap().iter().map(|j| ans_parse(j.as_str().unwrap())).collect();
        if let Ok(n) = std::env::var("VERIF_STRESS") {
            // determinism stress: the same history on 16 threads at once must always look the same
            let n: usize = n.parse().unwrap();
            let reference = format!("{:?}", m.run(&hist).map(|o| (o.pending, o.disk, o.confirmed, o.sessions)));
            std::thread::scope(|sc| {
                for _ in 0..16 {
                    sc.spawn(|| {
                        for i in 0..n {
                            let got = format!("{:?}", m.run(&hist).map(|o| (o.pending, o.disk, o.confirmed, o.sessions)));
                            if got != reference {
                                println!("STRESS-DIVERGED run {i}: {got} vs {reference}");
                            }
                        }
                    });
                }
            });
            println!("STRESS-DONE {reference}");
        }
        let a = m.run(&hist);
        let b = m.run(&hist);
        assert_eq!(format!("{:?}", a.as_ref().map(|o| (o.pending, &o.disk, &o.confirmed))), format!("{:?}", b.as_ref().map(|o| (o.pending, &o.disk, &o.confirmed))), "uncontrolled nondeterminism");
        if let Err(v) = a {
            rep.finding(Finding {
                clause: v.clause,
                signature: v.signature,
                detail: v.detail,
                case,
            });
        }
        rep.finish();
        return;
    }
    let (depth, max_cost) = if thorough { (12, 3) } else { (9, 2) };
    let setups: Vec<Setup> = if thorough { vec![Setup { backlog: 1 }, Setup { backlog: 3 }, Setup { backlog: 6 }] } else { vec![Setup { backlog: 3 }, Setup { backlog: 1 }] };
    rep.rule(&format!(
        "every history of <= {depth} environment answers with <= {max_cost} deviations from the default answer, for initial sequencer backlogs {:?}: \
         decision points are the account query of try_prepare {{ok, crash}}, BroadcastTx {{accept, reject, timeout with the tx lost / kept, crash \
         with the tx lost / kept}} and GetTx of a mempool tx {{included, pending, evicted, crash with the tx pending / included / evicted}}; a crash \
         drops the relayer's whole runtime, leaves a torn temp file, and restarts from the state file on disk; the sequencer produces one more block per \
         Celestia inclusion. Each history is replayed from scratch on the real Relayer::run (SubmissionStateAtStartup::new_from_path, read::BlockStream, \
         block forwarding, BlobSubmitter::run, CelestiaClient over in-memory gRPC; latest heights through the verif hook) under a paused clock. \
         Oracle after every history: heights confirmed on the fake Celestia have no gap from the first relayed height, every submission carries \
         consecutive heights, the state file parses and the relayer restarts from it, and last_submission only names heights (and a Celestia height) \
         that were confirmed",
        setups.iter().map(|s| s.backlog).collect::<Vec<_>>()
    ));
    let mut outcomes = 0;
    for setup in setups {
        let m = Replayer {
            setup,
            blocks: blocks.clone(),
            metrics,
        };
        if let Err(v) = m.run(&[]) {
            rep.finding(Finding {
                clause: v.clause,
                signature: v.signature,
                detail: v.detail,
                case: J::obj().with("backlog", J::i(setup.backlog)).with("history", J::arr(Vec::<J>::new().into_iter())),
            });
            continue;
        }
        let out = explore::explore(
            &m,
            &Config {
                max_depth: depth,
                max_cost,
                workers: report::workers(),
                time_cap: Duration::from_secs(if thorough { 3000 } else { 240 }),
                ..Config::default()
            },
        );
        println!(
            "NOTE C11 backlog={} depth={depth} max_deviations={max_cost}: histories={} transitions={} skipped={} outcomes={} per_depth={:?} violations={}",
            setup.backlog,
            out.states,
            out.transitions,
            out.skipped,
            out.distinct_outcomes,
            out.per_depth_states,
            out.violations.len()
        );
        rep.add("states", out.states);
        rep.add("transitions", out.transitions);
        rep.add("schedules", out.states);
        rep.add("traces_validated_against_impl", out.transitions);
        outcomes = outcomes.max(out.distinct_outcomes);
        if let Some(cap) = &out.cap_hit {
            rep.cap_hit(cap);
        }
        for v in &out.violations {
            rep.finding(Finding {
                clause: v.violation.clause.clone(),
                signature: v.violation.signature.clone(),
                detail: v.violation.detail.clone(),
                case: J::obj().with("backlog", J::i(setup.backlog)).with("history", J::arr(v.history.iter().map(|a| J::s(ans_name(a))))),
            });
        }
        for h in out.sample_histories.iter().take(2) {
            rep.sample(J::obj().with("backlog", J::i(setup.backlog)).with("history", J::arr(h.iter().map(|a| J::s(ans_name(a))))));
        }
    }
    rep.add("distinct_outcomes", outcomes);
    rep.set_extra("depth", J::i(depth));
    rep.set_extra("max_deviations", J::i(max_cost));
    rep.assume("crash = the relayer process stops (all tasks dropped) at an RPC boundary; every distinct combination of state-file content and Celestia-side fate of the in-flight BlobTx arises at one of these boundaries. Power loss (rename persisted before file data) is outside the model");
    rep.assume("the CometBFT HTTP client of Relayer::run is replaced through the cfg(verif) hook: the chain-id check is skipped and latest heights come from a channel; everything else of run() is the real code");
    rep.assume("fetching a sequencer block takes 50 virtual ms in the fake, so that how many blocks reach the next submission does not depend on real file-system latency");
    rep.finish();
}

// ---------------------------------------------------------------------------------------------
// State file: every crash point of `State::write` (write temp, rename) leaves a readable file
// ---------------------------------------------------------------------------------------------

#[test]
fn verif_c11_statefile() {
    if let Ok(dir) = std::env::var("VERIF_C11_CHILD") {
        statefile_child(&PathBuf::from(dir));
        return;
    }
    let mut rep = Report::new("C11", "statefile");
    rep.rule(
        "for every pair (old, new) of state-file contents the relayer writes (fresh, started, prepared) and every crash point of State::write \
         (temp file holds any prefix of the new content, renamed or not): SubmissionStateAtStartup::new_from_path succeeds and reports the old \
         state (before the rename) or the new one (after it)",
    );
    let contents: Vec<(&str, String, Option<u64>)> = vec![
        ("fresh", "{\n  \"state\": \"fresh\"\n}".to_string(), None),
        (
            "started",
            "{\n  \"state\": \"started\",\n  \"last_submission\": {\n    \"celestia_height\": 5,\n    \"sequencer_height\": 7\n  }\n}".to_string(),
            Some(7),
        ),
        (
            "prepared",
            "{\n  \"state\": \"prepared\",\n  \"sequencer_height\": 9,\n  \"last_submission\": {\n    \"celestia_height\": 5,\n    \"sequencer_height\": 8\n  },\n  \"blob_tx_hash\": \"0909090909090909090909090909090909090909090909090909090909090909\",\n  \"at\": \"2024-06-24T22:22:22.222222222Z\"\n}".to_string(),
            Some(8),
        ),
    ];
    let rt = tokio::runtime::Builder::new_current_thread().enable_all().build().unwrap();
    for (old_name, old, old_last) in &contents {
        for (new_name, new, new_last) in &contents {
            for cut in 0..=new.len() {
                for renamed in [false, true] {
                    if renamed && cut != new.len() {
                        // the rename only happens after the temp file was written completely
                        continue;
                    }
                    rep.add("evaluations", 1);
                    rep.add("schedules", 1);
                    let dir = tempfile::tempdir().unwrap();
                    let path = dir.path().join("state.json");
                    std::fs::write(&path, old).unwrap();
                    let tmp = temp_path_of(&path);
                    std::fs::write(&tmp, &new.as_bytes()[..cut]).unwrap();
                    if renamed {
                        std::fs::rename(&tmp, &path).unwrap();
                    }
                    let got = rt.block_on(SubmissionStateAtStartup::new_from_path(&path));
                    let want = if renamed { new_last } else { old_last };
                    let ok = match &got {
                        Ok(s) => s.last_completed_sequencer_height().map(|h| h.value()) == *want,
                        Err(_) => false,
                    };
                    if !ok {
                        rep.finding(Finding {
                            clause: "state-file-readable".into(),
                            signature: "state file unreadable or wrong after a crash inside State::write".into(),
                            detail: format!("old={old_name} new={new_name} temp prefix {cut}/{} renamed={renamed}: {:?}", new.len(), got.map(|s| format!("{s:?}"))),
                            case: J::obj().with("old", J::s(*old_name)).with("new", J::s(*new_name)).with("cut", J::i(cut as u64)).with("renamed", J::Bool(renamed)),
                        });
                    }
                }
            }
        }
    }
    drop(rt);
    statefile_traced(&mut rep);
    rep.finish();
}

// ---------------------------------------------------------------------------------------------
// State file, bound to the real write path: the real state transitions run in a child process
// under strace; the recorded file-system calls (open/truncate, write, rename, unlink) are the
// history, and every crash point of that history - before each call and after every byte of each
// write - is materialised in a fresh directory and handed to the real `new_from_path`.
// ---------------------------------------------------------------------------------------------

const CHILD_STEPS: usize = 7;

fn statefile_child(dir: &PathBuf) {
    use std::io::Write as _;
    let marker = |k: usize| {
        let mut f = std::fs::OpenOptions::new().create(true).append(true).open(dir.join("marker")).unwrap();
        f.write_all(format!("{k}\n").as_bytes()).unwrap();
    };
    let path = dir.join("state.json");
    let rt = tokio::runtime::Builder::new_current_thread().enable_all().build().unwrap();
    rt.block_on(async {
        marker(0);
        let SubmissionStateAtStartup::Fresh(fresh) = SubmissionStateAtStartup::new_from_path(&path).await.unwrap() else {
            panic!("fresh expected");
        };
        marker(1);
        let started = fresh.into_started();
        let prepared = started.into_prepared(SequencerHeight::from(3u32), super::BlobTxHash::from_raw([1; 32])).await.unwrap();
        marker(2);
        let started = prepared.into_started(101).await.unwrap();
        marker(3);
        let prepared = started.into_prepared(SequencerHeight::from(5u32), super::BlobTxHash::from_raw([2; 32])).await.unwrap();
        marker(4);
        let started = prepared.revert().await.unwrap();
        marker(5);
        let prepared = started.into_prepared(SequencerHeight::from(6u32), super::BlobTxHash::from_raw([3; 32])).await.unwrap();
        marker(6);
        let _started = prepared.into_started(102).await.unwrap();
        marker(CHILD_STEPS);
    });
}

#[derive(Clone, Debug)]
enum FsOp {
    /// open with O_TRUNC (and / or creation of a missing file)
    Truncate(String),
    /// write of `data` at byte `offset` of the file (files opened without O_TRUNC keep their tail)
    Write(String, usize, Vec<u8>),
    Rename(String, String),
    Unlink(String),
    Marker,
}

fn unhex_strace(s: &str) -> Vec<u8> {
    // "\x2f\x74..." as printed by strace -xx
    let mut out = Vec::new();
    let b = s.as_bytes();
    let mut i = 0;
    while i + 3 < b.len() + 0 && i < b.len() {
        if b[i] == b'\\' && b[i + 1] == b'x' {
            out.push(u8::from_str_radix(&s[i + 2..i + 4], 16).unwrap());
            i += 4;
        } else {
            out.push(b[i]);
            i += 1;
        }
    }
    out
}

/// Splits the argument list of one strace line into top-level arguments; quoted strings are
/// returned without quotes.
fn split_args(s: &str) -> Vec<String> {
    let mut args = Vec::new();
    let mut cur = String::new();
    let mut in_str = false;
    let mut depth = 0;
    let mut chars = s.chars().peekable();
    while let Some(c) = chars.next() {
        match c {
            '"' => in_str = !in_str,
            '\\' if in_str => {
                cur.push(c);
                if let Some(n) = chars.next() {
                    cur.push(n);
                }
            }
            '(' | '[' | '{' if !in_str => {
                depth += 1;
                cur.push(c);
            }
            ')' | ']' | '}' if !in_str => {
                depth -= 1;
                cur.push(c);
            }
            ',' if !in_str && depth == 0 => {
                args.push(cur.trim().to_string());
                cur = String::new();
            }
            _ => cur.push(c),
        }
    }
    if !cur.trim().is_empty() {
        args.push(cur.trim().to_string());
    }
    args
}

fn parse_strace(log: &str, dir: &str, initial: &BTreeMap<String, Vec<u8>>) -> Result<Vec<FsOp>, String> {
    use std::collections::HashMap;
    // join "<unfinished ...>" / "<... resumed>" pairs per thread
    let mut pending: HashMap<String, String> = HashMap::new();
    let mut lines: Vec<String> = Vec::new();
    for raw in log.lines() {
        let (pid, rest) = raw.split_once(char::is_whitespace).ok_or_else(|| format!("bad line {raw}"))?;
        let rest = rest.trim_start();
        if let Some(head) = rest.strip_suffix("<unfinished ...>") {
            pending.insert(pid.to_string(), head.trim_end().to_string());
        } else if rest.starts_with("<... ") {
            let tail = rest.split_once("resumed>").map(|x| x.1).unwrap_or("");
            let head = pending.remove(pid).unwrap_or_default();
            lines.push(format!("{head}{tail}"));
        } else {
            lines.push(rest.to_string());
        }
    }
    let mut fds: HashMap<i64, (String, bool)> = HashMap::new(); // fd -> (path, is marker)
    let mut read_fds: HashMap<i64, String> = HashMap::new();
    let mut offsets: HashMap<i64, usize> = HashMap::new();
    let mut shadow: BTreeMap<String, Vec<u8>> = initial.clone(); // file contents so far, for kernel-side copies
    let mut ops: Vec<FsOp> = Vec::new();
    let under = |p: &str| p.starts_with(dir);
    let mut applied = 0usize;
    for l in lines {
        while applied < ops.len() {
            apply_op(&mut shadow, &ops[applied]);
            applied += 1;
        }
        let Some((name, rest)) = l.split_once('(') else { continue };
        let Some((args, ret)) = rest.rsplit_once(" = ") else { continue };
        let Some(args) = args.trim_end().strip_suffix(')') else { continue };
        let ret: i64 = ret.split_whitespace().next().and_then(|r| r.parse().ok()).unwrap_or(-1);
        let a = split_args(args);
        let text = |i: usize| String::from_utf8_lossy(&unhex_strace(a.get(i).map(String::as_str).unwrap_or(""))).to_string();
        match name {
            "openat" | "open" | "creat" => {
                let (path, flags) = match name {
                    "openat" => (text(1), a.get(2).cloned().unwrap_or_default()),
                    "open" => (text(0), a.get(1).cloned().unwrap_or_default()),
                    _ => (text(0), "O_CREAT|O_WRONLY|O_TRUNC".to_string()),
                };
                if ret < 0 || !under(&path) {
                    continue;
                }
                let is_marker = path.ends_with("/marker");
                let writable = flags.contains("O_WRONLY") || flags.contains("O_RDWR");
                if writable && !is_marker && flags.contains("O_APPEND") {
                    return Err(format!("unmodelled append-mode open of the state file: {l}"));
                }
                if writable && !is_marker && flags.contains("O_TRUNC") {
                    ops.push(FsOp::Truncate(path.clone()));
                }
                if writable {
                    offsets.insert(ret, 0usize);
                    fds.insert(ret, (path, is_marker));
                } else {
                    read_fds.insert(ret, path);
                }
            }
            "close" => {
                if let Some(fd) = a.first().and_then(|x| x.parse::<i64>().ok()) {
                    fds.remove(&fd);
                    read_fds.remove(&fd);
                }
            }
            "copy_file_range" | "sendfile" => {
                // kernel-side copy: a write of the source file's bytes, which can be torn like any other
                let (src, dst) = if name == "sendfile" { (1, 0) } else { (0, 2) };
                let fd_of = |i: usize| a.get(i).and_then(|x| x.parse::<i64>().ok());
                let (Some(src_fd), Some(dst_fd)) = (fd_of(src), fd_of(dst)) else { continue };
                let Some((dst_path, _)) = fds.get(&dst_fd).cloned() else { continue };
                if ret <= 0 {
                    continue;
                }
                let Some(src_path) = read_fds.get(&src_fd).cloned() else {
                    return Err(format!("kernel-side copy into the state file from an unknown source: {l}"));
                };
                let already = offsets.get(&dst_fd).copied().unwrap_or(0);
                let content = shadow.get(&src_path).cloned().unwrap_or_default();
                let n = usize::try_from(ret).unwrap();
                if already + n > content.len() {
                    return Err(format!("kernel-side copy not understood: {l}"));
                }
                ops.push(FsOp::Write(dst_path, already, content[already..already + n].to_vec()));
                offsets.insert(dst_fd, already + n);
            }
            "write" | "pwrite64" | "writev" => {
                let Some(fd) = a.first().and_then(|x| x.parse::<i64>().ok()) else { continue };
                let Some((path, is_marker)) = fds.get(&fd).cloned() else { continue };
                if is_marker {
                    ops.push(FsOp::Marker);
                    continue;
                }
                if name != "write" {
                    return Err(format!("unmodelled write call on the state file: {l}"));
                }
                let data = unhex_strace(a.get(1).map(String::as_str).unwrap_or(""));
                if ret < 0 {
                    continue;
                }
                let n = usize::try_from(ret).unwrap().min(data.len());
                let at = offsets.get(&fd).copied().unwrap_or(0);
                ops.push(FsOp::Write(path, at, data[..n].to_vec()));
                offsets.insert(fd, at + n);
            }
            "rename" => {
                if ret == 0 && (under(&text(0)) || under(&text(1))) {
                    ops.push(FsOp::Rename(text(0), text(1)));
                }
            }
            "renameat" | "renameat2" => {
                if ret == 0 && (under(&text(1)) || under(&text(3))) {
                    ops.push(FsOp::Rename(text(1), text(3)));
                }
            }
            "unlink" => {
                if ret == 0 && under(&text(0)) {
                    ops.push(FsOp::Unlink(text(0)));
                }
            }
            "unlinkat" => {
                if ret == 0 && under(&text(1)) {
                    ops.push(FsOp::Unlink(text(1)));
                }
            }
            "ftruncate" | "truncate" | "dup" | "dup2" | "dup3" => {
                let touches = match name {
                    "truncate" => under(&text(0)),
                    _ => a.first().and_then(|x| x.parse::<i64>().ok()).is_some_and(|fd| fds.contains_key(&fd)),
                };
                if touches {
                    return Err(format!("unmodelled call on the state file: {l}"));
                }
            }
            _ => {}
        }
    }
    Ok(ops)
}

fn write_at(file: &mut Vec<u8>, at: usize, data: &[u8]) {
    if file.len() < at + data.len() {
        file.resize(at + data.len(), 0);
    }
    file[at..at + data.len()].copy_from_slice(data);
}

fn apply_op(files: &mut BTreeMap<String, Vec<u8>>, op: &FsOp) {
    match op {
        FsOp::Truncate(p) => {
            files.insert(p.clone(), Vec::new());
        }
        FsOp::Write(p, at, data) => write_at(files.entry(p.clone()).or_default(), *at, data),
        FsOp::Rename(a, b) => {
            if let Some(v) = files.remove(a) {
                files.insert(b.clone(), v);
            }
        }
        FsOp::Unlink(p) => {
            files.remove(p);
        }
        FsOp::Marker => {}
    }
}

fn statefile_traced(rep: &mut Report) {
    rep.rule(
        "the real transitions new_from_path, into_prepared, into_started, into_prepared, revert, into_prepared, into_started run in a child          process under strace; for every crash point of the recorded file-system history (before each open/truncate, write, rename; after every          byte of every write) the directory is materialised and the real SubmissionStateAtStartup::new_from_path must succeed and report the          state before or after the interrupted transition",
    );
    let dir = tempfile::tempdir().unwrap();
    let dir_s = dir.path().to_str().unwrap().to_string();
    let state_path = dir.path().join("state.json");
    let fresh = "{\"state\": \"fresh\"}";
    std::fs::write(&state_path, fresh).unwrap();
    // the directory starts as a crash left it: a complete, longer temp file next to the state file
    std::fs::write(temp_path_of(&state_path), LEFTOVER_TEMP).unwrap();
    let log_path = dir.path().join("strace.log");
    let exe = std::env::current_exe().unwrap();
    let status = std::process::Command::new("strace")
        .args(["-f", "-qq", "-o"])
        .arg(&log_path)
        .args([
            "-e",
            "trace=open,openat,creat,close,write,pwrite64,writev,rename,renameat,renameat2,unlink,unlinkat,ftruncate,truncate,dup,dup2,dup3,copy_file_range,sendfile",
            "-s",
            "1000000",
            "-xx",
        ])
        .arg(&exe)
        .args(["relayer::verif_relayer::verif_c11_statefile", "--exact", "--nocapture", "--test-threads", "1"])
        .env("VERIF_C11_CHILD", &dir_s)
        .stdout(std::process::Stdio::null())
        .stderr(std::process::Stdio::null())
        .status();
    let harness_fail = |rep: &mut Report, what: &str, detail: String| {
        rep.finding(Finding {
            clause: "harness".into(),
            signature: what.into(),
            detail,
            case: J::obj(),
        });
    };
    match status {
        Ok(s) if s.success() => {}
        other => {
            harness_fail(rep, "traced child did not run", format!("{other:?}"));
            return;
        }
    }
    let log = std::fs::read_to_string(&log_path).unwrap_or_default();
    let initial: BTreeMap<String, Vec<u8>> = [
        (format!("{dir_s}/state.json"), fresh.as_bytes().to_vec()),
        (format!("{dir_s}/state.json.tmp"), LEFTOVER_TEMP.as_bytes().to_vec()),
    ]
    .into_iter()
    .collect();
    let ops = match parse_strace(&log, &dir_s, &initial) {
        Ok(o) => o,
        Err(e) => {
            harness_fail(rep, "file-system history not understood", e);
            return;
        }
    };
    let markers = ops.iter().filter(|o| matches!(o, FsOp::Marker)).count();
    let renames = ops.iter().filter(|o| matches!(o, FsOp::Rename(..))).count();
    let writes = ops.iter().filter(|o| matches!(o, FsOp::Write(..))).count();
    println!("NOTE C11 statefile trace: {} file-system calls ({writes} writes, {renames} renames, {markers} markers)", ops.len());
    if markers != CHILD_STEPS + 1 || writes < CHILD_STEPS {
        harness_fail(rep, "file-system history incomplete", format!("{markers} markers, {writes} writes, {renames} renames; ops {ops:?}"));
        return;
    }
    let rt = tokio::runtime::Builder::new_current_thread().enable_all().build().unwrap();
    // observe a materialised directory through the real reader
    let observe = |files: &BTreeMap<String, Vec<u8>>| -> Result<String, String> {
        let d = tempfile::tempdir().unwrap();
        let here = d.path().to_str().unwrap().to_string();
        for (p, bytes) in files {
            if p.ends_with("/marker") {
                continue;
            }
            std::fs::write(p.replace(&dir_s, &here), bytes).unwrap();
        }
        rt.block_on(SubmissionStateAtStartup::new_from_path(d.path().join("state.json")))
            .map(|s| format!("{s:?}").replace(&here, "<DIR>"))
            .map_err(|e| format!("{e:#}").replace(&here, "<DIR>"))
    };
    // pass 1: the state at every marker (no crash)
    let mut files: BTreeMap<String, Vec<u8>> = initial.clone();
    let mut at_marker: Vec<String> = Vec::new();
    for op in &ops {
        if matches!(op, FsOp::Marker) {
            match observe(&files) {
                Ok(s) => at_marker.push(s),
                Err(e) => {
                    rep.finding(Finding {
                        clause: "state-file-readable".into(),
                        signature: "a completed state transition leaves a state file that cannot be read".into(),
                        detail: format!("after {} completed transitions (directory started with a crash-leftover temp file): {e}", at_marker.len()),
                        case: J::obj().with("transition", J::i(at_marker.len() as u64)),
                    });
                    return;
                }
            }
        }
        apply_op(&mut files, op);
    }
    rep.set_extra("statefile_states_at_markers", J::arr(at_marker.iter().map(|s| J::s(s.clone()))));
    // pass 2: every crash point
    let mut files: BTreeMap<String, Vec<u8>> = initial.clone();
    let mut step = 0usize; // number of markers passed
    let mut check = |rep: &mut Report, files: &BTreeMap<String, Vec<u8>>, step: usize, what: String| {
        rep.add("evaluations", 1);
        rep.add("schedules", 1);
        let allowed: Vec<&String> = [step.checked_sub(1), Some(step)].into_iter().flatten().filter_map(|k| at_marker.get(k)).collect();
        let got = observe(files);
        let ok = matches!(&got, Ok(s) if allowed.contains(&s));
        if !ok {
            rep.finding(Finding {
                clause: "state-file-readable".into(),
                signature: "a crash inside a state transition leaves a state file that is unreadable or names a third state".into(),
                detail: format!("crash {what} during transition {step}: new_from_path gives {got:?}; allowed {allowed:?}"),
                case: J::obj().with("transition", J::i(step as u64)).with("crash", J::s(what)),
            });
        }
    };
    for (i, op) in ops.iter().enumerate() {
        match op {
            FsOp::Marker => {
                step += 1;
            }
            FsOp::Write(p, at, data) => {
                check(rep, &files, step, format!("before call {i} (write of {} bytes to {})", data.len(), p.replace(&dir_s, "<DIR>")));
                for cut in 1..data.len() {
                    let mut torn = files.clone();
                    write_at(torn.entry(p.clone()).or_default(), *at, &data[..cut]);
                    check(rep, &torn, step, format!("after {cut} of {} bytes of call {i} (write to {})", data.len(), p.replace(&dir_s, "<DIR>")));
                }
            }
            other => check(rep, &files, step, format!("before call {i} ({:?})", format!("{other:?}").replace(&dir_s, "<DIR>"))),
        }
        apply_op(&mut files, op);
    }
    check(rep, &files, step, "after the last call".into());
}
